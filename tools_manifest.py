#!/usr/bin/env python3
"""regenerates MANIFEST.json from the table below"""
import json, os
CHECKS = {
 'C04': ('model_checking', 'bit-precise (z3 QF_FP) symbolic execution of clang LLVM IR of every operator instance against its IEEE component-wise specification',
         'Every operator / compound assignment / constructor twin / math overload the inventory finds is executed symbolically from clang -O1 IR and compared bit for bit with the correctly rounded component-wise expression for all bit patterns of the operands (float, double, long double). Bounded by: path bound 4096, no loops with symbolic trip count, solver timeout.',
         'clang 14 IR at -O1 -ffp-contract=off (not the project\'s -O3 -ffast-math); z3 FP theory; operands built by memcpy of raw numbers; libm other than sqrt/fabs uninterpreted', '3 C04'),
 'C14': ('model_checking', 'bit-precise (z3 QF_FPBV+UF) symbolic execution of clang LLVM IR of the six comparison operators and std::hash of every comparable type against the lexicographic-order specification',
         'For every quantity, vector/tensor, dimension and model type the six comparison operators and std::hash are executed symbolically from clang IR and shown, for all non-NaN bit patterns (all int8 exponents for Dimensions), to coincide with lexicographic order / component-wise equality of the stored values; a == b implies equal hashes with the std::hash bodies executed and _Hash_bytes uninterpreted (decided compositionally: one lemma per component hash + combination over shared variables).',
         'clang 14 IR at -O1; NaN excluded as the property states; _Hash_bytes and std::hash<long double> are uninterpreted functions (the latter 0 for signed zeros, libstdc++ behaviour assumed); container storability follows by the std containers\' contract', '3 C14'),
 'C16': ('model_checking', 'bit-precise (z3 QF_FP) symbolic execution of clang LLVM IR of every converting constructor/assignment against fpext/fptrunc per component',
         'For every class and all six ordered pairs of numeric types the converting constructor and the converting assignment (into an arbitrary symbolic pre-state) are executed symbolically from clang IR; every result component is shown to be exactly the plain cast of the same source component for all bit patterns; widen-then-narrow is the identity; directions equal the re-normalised cast.',
         'clang 14 IR at -O1; z3 FP theory; one NaN per format (payloads not distinguished)', '3 C16'),
 'C18': ('model_checking', 'symbolic execution of clang LLVM IR of each definitional relation; z3 nlsat decides identity with the textbook formula over the reals and a K-ulp bound under the standard rounding model (monolithic, or solver-checked local error lemmas composed bottom-up for large expressions)',
         'Each of about 40 definitional entry points (existence pinned by compilation) is executed symbolically in float, double and long double and compared with an independently written textbook formula: exactly over the reals (every constant and argument position) and within K ulps for all positive inputs and all admissible rounding errors.',
         'standard model of rounding (no intermediate overflow/underflow); clang 14 IR at -O1 -ffp-contract=off; composition of local lemmas is trusted; formulas table written from textbooks', '3 C18'),
 'C03': ('model_checking', 'symbolic execution of clang LLVM IR of every relation the inventory finds; z3 nlsat decides, one base dimension at a time, that rescaling the inputs by sigma^(2 d) rescales the result by sigma^(2 d_result) for all reals and all sigma > 0',
         'Every constructor, operator and member function between quantity types (about 900 relations, recomputed from the current tree) is executed symbolically and proved homogeneous of exactly the degree its declared result dimensions predict, for all real inputs and all positive unit rescalings; the declared dimension arithmetic of * / + - is checked as ground facts.',
         'exact real arithmetic; declared exponents read from the IR constants of X::Dimensions(); quick tier analyses the double instantiation of the templates, thorough all three; libm other than sqrt/fabs uninterpreted', '3 C03'),
 'C05': ('model_checking', 'symbolic execution of clang LLVM IR of every derived inverse pair composed in one wrapper; z3 nlsat decides the identity over the positive reals and a 16-ulp bound under the standard rounding model; per-relation accuracy by solver-checked local error lemmas',
         'About 475 inverse pairs derived from the constructor signatures of the current tree are composed, executed symbolically in all three numeric types and shown to return the original argument exactly over the reals and within 16 ulps for multiplicative compositions; every relation on its own is within 8 ulps of its own exact formula; planar/3-D embeddings are the identity on bits.',
         'standard model of rounding (no overflow/underflow); compositions containing a sum or difference are ill-conditioned by construction (heat-capacity family) and are decided per step + exact identity, as DESIGN.md explains; composition of local lemmas trusted', '3 C05'),
 'C01': ('model_checking', 'symbolic execution of clang LLVM IR of both conversion legs of every unit (and static pairs); z3 nlsat bounds the result, under the standard rounding model, against the exact affine map an independent unit-symbol expander (O-unit) derives from the unit\'s own abbreviation',
         'All 514 units x 2 legs x 3 numeric types plus static unit pairs are executed symbolically from clang IR and shown to be within 8 (16 for pairs) ulps of the exact SI factor (rational times a power of pi) and offset that O-unit computes from the unit\'s own symbol, for all real inputs and all admissible rounding errors; standard-unit legs are the identity on bits.',
         'standard model of rounding (no overflow/underflow); O-unit conventions (SI 2019 / NIST SP 811); clang constant folding is part of the analysed code; glibc pow with constant arguments accurate to one ulp (long double only)', '3 C01'),
 'C02': ('model_checking', 'symbolic execution of clang LLVM IR (-fno-inline) of every conversion entry point including the run-time dispatch, whose tables are built by executing their own dynamic initialisers; z3 decides bit-identity with the scalar static conversion legs, unit pair symbolic',
         'The run-time scalar path is executed with both units symbolic (all ordered pairs of all 37 types, 3 numeric types) and every path shown to return the term of the static legs with no lookup miss; array/vector/PlanarVector/Vector/SymmetricDyad/Dyad forms (in-place, copying, compile-time), quantity constructors, Value(unit), StaticValue and Create are shown component-wise identical to the scalar legs; copying forms leave their argument unchanged; read-back in the same unit is within 16 ulps.',
         'summaries for std::map construction/find/at and operator new (std::function, std::array, std::vector are executed); clang 14 IR at -O1 -fno-inline; scalar legs are the reference (their numerical correctness is C01); std::vector sizes 0,1,3; printing forms are C15', '3 C02'),
 'C08': ('model_checking', 'symbolic execution of clang LLVM IR of the lookup functions over tables built by executing their own dynamic initialisers (enumerator symbolic; input string arbitrary), plus ground comparison of the dumped tables with the enum declarations and with an independent unit-symbol expander',
         'Abbreviation / operator<< are executed with a symbolic enumerator of each of the 39 enumeration types and shown never to miss the table; ParseEnumeration is executed on an arbitrary byte string (every spelling, or none); the dumped tables are total, injective and round-trip; each of ~1900 spellings denotes, by O-unit, the unit it parses to.',
         'summaries for std::map/unordered_map construction and find, std::string/ostringstream; hash and equality of string_view are total functions of the bytes (contract); O-unit is the meaning of spellings; ground table facts are evaluated directly (the solver adds nothing there)', '3 C08'),
 'C07': ('model_checking', 'symbolic execution of clang LLVM IR of ConsistentUnit / RelatedUnitSystem (system or unit symbolic, including three-call sequences from the initial state) over tables built by executing their own initialisers, plus exact rational comparison of every consistent unit with the product of its system\'s base units by an independent unit-symbol expander',
         'All 148 consistent units are shown exactly coherent (rational identity by O-unit); the reverse table is the inverse of the forward one; both lookups are executed with symbolic keys and shown to return the table entries, never to throw for a declared system, and to carry no state between consecutive lookups of neighbouring unit types.',
         'O-unit readings and the four base-unit sets; map summaries; the conversion code is tied to the symbols by C01; ground facts evaluated directly', '3 C07'),
 'C06': ('model_checking', 'bit-precise (z3 QF_BV) symbolic execution of the Dimensions comparison operators and hash for all int8 exponent tuples; symbolic execution of Dimensions::Print over all 16384 sign patterns with std::string summarised; declared dimension sets compared with an independent unit-symbol expander',
         'The exponent vector O-unit derives from each of the 514 unit symbols equals the declared set of its type; every quantity reports its unit type\'s set; ==,!=,<,>,<=,>= and std::hash of Dimensions and Dimension::X coincide with the 7-tuple order/equality/polynomial hash for all 2^112 pairs; Print() produces the specified text on every sign pattern of the exponents.',
         'O-unit dimensions of symbols; std::to_string uninterpreted; std::string summaries', '3 C06'),
 'C09': ('model_checking', 'symbolic execution of clang LLVM IR of every tensor-algebra entry point; z3 nlsat decides per-component identity with mechanically expanded index-notation definitions over the reals, a K-ulp bound (relative to the sum of term magnitudes) by solver-checked local error lemmas, and the inverse-presence condition bit-precisely',
         'Dot, cross, dyadic, magnitude, trace, determinant, transpose, cofactors, adjugate, inverse and all matrix-vector / matrix-matrix product overloads of the four classes, in three numeric types, equal the O-tensor definitions identically over the reals and within 8 ulps of the sum of term magnitudes; Inverse() is present iff the computed determinant is non-zero and equals adjugate/determinant.',
         'standard model of rounding; "well-conditioned" replaced by the magnitude-relative bound; integer exactness follows from the REAL identity while intermediates stay below 2^p (not separately bounded)', '3 C09'),
 'C10': ('model_checking', 'symbolic execution of clang LLVM IR of the normalisation kernels and of every construction path / vector-quantity accessor; z3 nlsat decides x/|x| identity over the reals, a 7*2^-p component bound by solver-checked local lemmas plus a unit-length lemma, z3 FP decides the zero-vector case and bit-identity of all paths with the kernels',
         'Direction / PlanarDirection kernels equal x/|x| over the reals, each component within 7*2^-p relative, hence Euclidean length within 4 ulps of one; zero vectors give exactly +0; every construction path (arrays, vectors, all 17 vector quantities, 2-D/3-D conversions, cross products) is bit-identical to the kernel; Magnitude() has the matching scalar type and value, component accessors return the stored components, magnitude times direction rebuilds the quantity within 16 ulps.',
         'standard model of rounding, squared length neither overflows nor underflows; exact invariance under power-of-two rescaling is not decided (declared in DESIGN.md); Magnitude() result type pinned by static_assert', '3 C10'),
 'C11': ('model_checking', 'symbolic execution of clang LLVM IR of the 8 arc-cosine kernels and 40 quantity-level forms; z3 FP decides, over an abstracted cosine, that every path confines the acos argument to [-1,1]; z3 nlsat decides the cosine identity and, by homogeneity scaling, that no intermediate overflows/underflows in the property\'s range; bit-identity of quantity forms and symmetry',
         'On every path of every kernel acos receives 1, -1 or a cosine the path condition confines to [-1, 1], so the angle is a number in [0, pi]; the cosine is a.b/(|a||b|) over the reals (symmetric, length-independent); no intermediate overflows and nothing a divisor is made of underflows while the squared lengths are representable; Angle(a,b) = Angle(b,a); the quantity-level constructors and members are bit-identical to the kernels.',
         'acos contract (libm); inputs non-zero finite with representable squared lengths; agreement with atan2 to 1e-7 rad not decided; direction operands are unit vectors (C10)', '3 C11'),
 'C12': ('model_checking', 'symbolic execution of clang LLVM IR of the twenty modulus-pair constructors, the derived-modulus accessors and all 9 (model type x overload) instances of each stress/strain map; z3 nlsat decides agreement with the identities of isotropic elasticity over 0 <= nu < 1/2 (up to the rounding of the code\'s own constants) and definedness; rounding constants by solver-checked local lemmas; bit-identity through the abstract interface',
         'Each constructor fed the pair O-formula gives for (mu, nu) stores (mu, lambda) for all mu > 0, 0 <= nu < 1/2, with nothing undefined; the five accessors satisfy E, K, M, nu identities; Stress = 2 mu eps + lambda tr(eps) I, Strain inverts it, rate arguments are ignored, zero maps return +0, in all three model types and all three overloads, directly and through const ConstitutiveModel&.',
         'clang front-end shim for the three model headers (declared); standard rounding model; constructors that divide by a cancelling difference have no uniform rounding bound near nu -> 1/2 (declared in evidence notes); (lambda, nu) constructor assumes nu > 0', '3 C12'),
 'C13': ('model_checking', 'symbolic execution of clang LLVM IR of every overload of every virtual function of the two Newtonian fluid models in 9 (model type x overload) instances; z3 nlsat decides the closed-form linear maps and their inverse per component over the reals; rounding constants by solver-checked local lemmas; bit-identity through the abstract interface and of the ignored-argument forms',
         'Stress(D) = 2 mu D (+ mu_b tr(D) I), StrainRate inverts it, StrainRate(Stress(D)) = D, strain arguments are ignored, strain-only forms give +0, the one-argument compressible constructor stores mu_b = +0; all for mu > 0, mu_b >= 0 and all real symmetric tensors, in float, double and long double models and overloads.',
         'clang front-end shim (declared); standard rounding model; linearity is a consequence of the closed forms proved', '3 C13'),
}
NA = {}
def main():
    here = os.path.dirname(os.path.abspath(__file__))
    props = [json.loads(l)['id'] for l in open(os.path.join(here, 'properties.jsonl'))]
    checks = []
    for pid in props:
        if pid not in CHECKS:
            continue
        lvl, tech, text, note, ref = CHECKS[pid]
        checks.append({
            'property_id': pid,
            'quick_cmd': 'VERIF_TIER=quick bin/phqv check %s' % pid,
            'thorough_cmd': 'VERIF_TIER=thorough bin/phqv check %s' % pid,
            'evidence_file': 'evidence/%s.json' % pid,
            'replay_cmd_template': 'bin/phqv replay {path}',
            'engine': 'phqv',
            'level_claimed': {'category': lvl, 'text': text, 'design_ref': 'DESIGN.md section ' + ref},
            'level_note': note,
            'technique': tech,
        })
    na = [{'property_id': p, 'reason': NA.get(p, 'check not built yet (work in progress; see DESIGN.md section 3 for the plan)')}
          for p in props if p not in CHECKS]
    m = {
        'version': 1,
        'setup_cmd': 'bin/phqv selftest',
        'hooks': {'guard': 'PHQ_VERIF', 'enable': 'no source hooks are needed: every harness is an external translation unit that includes the headers of /repo',
                  'baseline_off_cmd': 'cmake -G Ninja -S /repo -B /repo/_build -DPHYSICAL_QUANTITIES_PHQ_TEST=ON && cmake --build /repo/_build -j16 && ctest --test-dir /repo/_build -j8 --timeout 900',
                  'source_commits': [], 'add_only': True},
        'engines': [{'name': 'phqv', 'path': 'phqv/', 'serves_properties': [c['property_id'] for c in checks],
                     'kind_free_text': 'own LLVM-IR symbolic executor (python) over clang-14 IR of generated extern "C" wrappers around the real phq templates; z3 (QF_FP/QF_BV bit-precise, QF_NRA for real and rounding-error models); native g++ replay of every counterexample'}],
        'checks': checks,
        'not_applicable': na,
        'notes': 'Solver-based checking of the real code. fix: commits in /repo are listed in known_findings.txt.',
    }
    json.dump(m, open(os.path.join(here, 'MANIFEST.json'), 'w'), indent=1)
    print('checks', len(checks), 'not_applicable', len(na))
if __name__ == '__main__':
    main()
