#!/usr/bin/env python3
"""Regression of the checks against the seeded changes: for each /verif/seeded/<id>_mN apply patch.diff to /repo, run
the listed checks (quick tier), record whether a VIOLATION for that property's check was printed, and restore /repo.
usage: run_seeded.py [--worktree] [<id>_mN ...]      writes /verif/seeded/RESULTS.md.  Without --worktree never run concurrently
with other checks; with it the patch is applied in a scratch worktree and /repo stays untouched."""
import os, re, subprocess, sys, time, json
CATCH = {  # which checks are expected to report each change (first = primary)
    'C01_m1': ['C01'], 'C01_m2': ['C02'], 'C02_m1': ['C02'], 'C02_m2': ['C01'], 'C03_m1': ['C03', 'C05'], 'C03_m2': ['C03', 'C18'],
    'C04_m1': ['C04'], 'C04_m2': ['C04'], 'C05_m1': ['C05'], 'C05_m2': ['C05'], 'C06_m1': ['C06'], 'C06_m2': ['C06'],
    'C07_m1': ['C07'], 'C07_m2': ['C01'], 'C08_m1': ['C08'], 'C08_m2': ['C02'], 'C09_m1': ['C09'], 'C09_m2': ['C09'],
    'C10_m1': ['C10'], 'C10_m2': ['C10'], 'C11_m1': ['C11'], 'C11_m2': ['C11'], 'C12_m1': ['C12'], 'C12_m2': ['C12'],
    'C13_m1': ['C13'], 'C13_m2': ['C13'], 'C14_m1': ['C14'], 'C14_m2': ['C14'], 'C15_m1': ['C15'], 'C15_m2': ['C15'],
    'C16_m1': ['C16'], 'C16_m2': ['C16'], 'C17_m1': ['C17'], 'C17_m2': ['C17'], 'C18_m1': ['C18'], 'C18_m2': ['C18'],
    'C19_m1': ['C19'], 'C19_m2': ['C19'], 'C20_m1': ['C20'], 'C20_m2': ['C20'],
    # second round (changes asked to differ in kind: type-dependent, aliasing, boundary values, initialisation order)
    'C01_m3': ['C02'], 'C01_m4': ['C01'], 'C02_m3': ['C02'], 'C02_m4': ['C01'], 'C05_m3': ['C05'], 'C05_m4': ['C05'],
    'C09_m3': ['C09'], 'C09_m4': ['C04'], 'C10_m3': ['C10'], 'C10_m4': ['C10'], 'C12_m3': ['C12'], 'C12_m4': ['C12'],
    'C14_m3': ['C14'], 'C14_m4': ['C14'], 'C16_m3': ['C16'], 'C16_m4': ['C16'], 'C19_m3': ['C19'], 'C19_m4': ['C19'],
    'C20_m3': ['C20'], 'C20_m4': ['C20'],
    # third round
    'C03_m3': ['C03'], 'C03_m4': ['C03', 'C10'], 'C04_m3': ['C04'], 'C04_m4': ['C04'], 'C06_m3': ['C06'], 'C06_m4': ['C14'],
    'C07_m3': ['C01'], 'C07_m4': ['C07'], 'C08_m3': ['C20'], 'C08_m4': ['C02'], 'C11_m3': ['C11'], 'C11_m4': ['C11'],
    'C13_m3': ['C13'], 'C13_m4': ['C13'], 'C15_m3': ['C15'], 'C15_m4': ['C15'], 'C17_m3': ['C17'], 'C17_m4': ['C17'],
    'C18_m3': ['C18'], 'C18_m4': ['C18'],
    # fourth round (changes that need something specific to manifest: lengths, sequences, thresholds, byte strings)
    'C02_m5': ['C02'], 'C04_m5': ['C04'], 'C05_m5': ['C05'], 'C07_m5': ['C07'], 'C09_m5': ['C09'], 'C10_m5': ['C10'],
    'C12_m5': ['C12'], 'C14_m5': ['C14'], 'C15_m5': ['C15'], 'C16_m5': ['C16'], 'C18_m5': ['C18'], 'C20_m5': ['C20'],
    'C01_m5': ['C01'], 'C03_m5': ['C03'], 'C06_m5': ['C06'], 'C08_m5': ['C08'], 'C11_m5': ['C11'], 'C13_m5': ['C13'],
    'C17_m5': ['C17'], 'C19_m5': ['C19'],
}


def sh(cmd, timeout=3600):
    p = subprocess.run(cmd, shell=True, stdout=subprocess.PIPE, stderr=subprocess.STDOUT, timeout=timeout)
    return p.returncode, p.stdout.decode('utf-8', 'replace')


def in_worktree(n):
    """same as the loop in main(), but /repo is left alone: the patch is applied in a scratch worktree of /repo's HEAD
    and the check is pointed at it (PHQV_REPO); safe to run next to other checks"""
    import tempfile, shutil
    rows = []
    wt = tempfile.mkdtemp(prefix='seedrun-', dir='/tmp')
    os.rmdir(wt)
    try:
        rc, out = sh('git -C /repo worktree add --detach %s HEAD && git -C %s apply /verif/seeded/%s/patch.diff' % (wt, wt, n))
        if rc != 0:
            return [(n, '-', 'patch does not apply', 0)]
        for c in CATCH[n]:
            t0 = time.time()
            rc, out = sh('cd /verif && PHQV_REPO=%s VERIF_TIER=quick PHQV_EVIDENCE_DIR=/tmp/seeded_evidence_%s timeout 3000 bin/phqv check %s' % (wt, n, c))
            viol = [l for l in out.split('\n') if l.startswith('VIOLATION property=%s ' % c)]
            summ = next((l for l in out.split('\n') if l.startswith(c + ':')), '')
            rows.append((n, c, 'CAUGHT (%d violation lines, exit %d)' % (len(viol), rc) if viol and rc == 1 else 'MISSED (exit %d) %s' % (rc, summ), round(time.time() - t0)))
            print(rows[-1], flush=True)
    finally:
        sh('git -C /repo worktree remove --force %s' % wt)
        shutil.rmtree(wt, ignore_errors=True)
        shutil.rmtree('/tmp/seeded_evidence_%s' % n, ignore_errors=True)
    return rows


def main():
    use_wt = '--worktree' in sys.argv
    sys.argv = [a for a in sys.argv if a != '--worktree']
    names = sys.argv[1:] or sorted(CATCH)
    rows = []
    for n in ([] if use_wt else names):
        d = '/verif/seeded/' + n
        rc, out = sh('git -C /repo status --porcelain --untracked-files=no')
        if out.strip():
            print('refusing: /repo has local modifications'); return 2
        rc, out = sh('git -C /repo apply %s/patch.diff' % d)
        if rc != 0:
            rows.append((n, '-', 'patch does not apply', 0)); continue
        try:
            for c in CATCH[n]:
                t0 = time.time()
                rc, out = sh('cd /verif && VERIF_TIER=quick PHQV_EVIDENCE_DIR=/tmp/seeded_evidence timeout 3000 bin/phqv check %s' % c)
                viol = [l for l in out.split('\n') if l.startswith('VIOLATION property=%s ' % c)]
                summ = next((l for l in out.split('\n') if l.startswith(c + ':')), '')
                rows.append((n, c, 'CAUGHT (%d violation lines, exit %d)' % (len(viol), rc) if viol and rc == 1 else 'MISSED (exit %d) %s' % (rc, summ), round(time.time() - t0)))
                print(rows[-1], flush=True)
        finally:
            sh('git -C /repo checkout -- .')
    if use_wt:
        for n in names:
            rows += in_worktree(n)
    prev = {}
    if sys.argv[1:] and os.path.exists('/verif/seeded/RESULTS.md'):
        for l in open('/verif/seeded/RESULTS.md'):
            m = re.match(r'^\| (C\d\d_m\d) \| (\S+) \| (.*) \| (\d+) \|$', l)
            if m:
                prev[(m.group(1), m.group(2))] = (m.group(1), m.group(2), m.group(3), m.group(4))
    for r in rows:
        prev[(r[0], r[1])] = r
    rows = [prev[k] for k in sorted(prev)]
    with open('/verif/seeded/RESULTS.md', 'w') as f:
        f.write('# Checks against the seeded changes (quick tier)\n\nRegenerate with `python3 tools/run_seeded.py` (applies each patch to /repo, runs the check, restores /repo).\n\n| change | check | result | wall s |\n|---|---|---|---|\n')
        for r in rows:
            f.write('| %s | %s | %s | %s |\n' % r)
    return 0


if __name__ == '__main__':
    sys.exit(main())
