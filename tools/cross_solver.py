#!/usr/bin/env python3
"""Cross-solver validation of the encodings: re-decide a sample of dumped queries with the z3 4.8.12 CLI and cvc5 1.0.3.
  1. PHQV_DUMP_SMT=/tmp/smtdump [PHQV_DUMP_EVERY=25] bin/phqv check Cxx     (writes every 25th query with z3 5.1's verdict)
  2. python3 tools/cross_solver.py /tmp/smtdump
A disagreement is sat-vs-unsat between two solvers; unknown / timeout / unsupported-theory errors are counted separately."""
import os, re, subprocess, sys, collections
from concurrent.futures import ThreadPoolExecutor


def run(cmd, timeout):
    try:
        p = subprocess.run(cmd, stdout=subprocess.PIPE, stderr=subprocess.STDOUT, timeout=timeout)
        out = p.stdout.decode('utf-8', 'replace')
    except subprocess.TimeoutExpired:
        return 'timeout'
    if '(error' in out or 'rror' in out.split('\n')[0]:
        return 'error'
    for l in out.split('\n'):
        if l.strip() in ('sat', 'unsat', 'unknown'):
            return l.strip()
    return 'error'


def one(path):
    txt = open(path).read()
    m = re.search(r'; z3-\S+ verdict: (\w+)', txt)
    ref = m.group(1) if m else '?'
    logic = 'fp' if 'FloatingPoint' in txt or 'fp.' in txt else 'nra' if '(* ' in txt else 'other'
    a = run(['/usr/bin/z3', '-smt2', '-T:30', path], 40)
    b = run(['cvc5', '--tlimit=30000', path], 40)
    return path, logic, ref, a, b


def main():
    d = sys.argv[1]
    files = sorted(os.path.join(d, f) for f in os.listdir(d) if f.endswith('.smt2'))
    with ThreadPoolExecutor(max_workers=12) as ex:
        res = list(ex.map(one, files))
    tally = collections.Counter()
    bad = []
    for path, logic, ref, a, b in res:
        for name, v in (('z3-4.8.12', a), ('cvc5-1.0.3', b)):
            if v in ('sat', 'unsat') and ref in ('sat', 'unsat'):
                tally[(logic, name, 'agree' if v == ref else 'DISAGREE')] += 1
                if v != ref:
                    bad.append((path, ref, name, v))
            else:
                tally[(logic, name, 'no verdict (%s)' % v if ref in ('sat', 'unsat') else 'reference unknown')] += 1
    print('queries:', len(files))
    for k in sorted(tally):
        print('  %-6s %-11s %-28s %d' % (k[0], k[1], k[2], tally[k]))
    for b in bad:
        print('DISAGREEMENT', b)
    return 1 if bad else 0


if __name__ == '__main__':
    sys.exit(main())
