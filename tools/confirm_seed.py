#!/usr/bin/env python3
"""Confirm a candidate seeded change: applies in a scratch worktree of /repo, builds, passes the pinned test
suite (every test in BASELINE.stable_pass), demo passes without and fails with the change.  Writes
/verif/seeded/<prop>_<mN>/{patch.diff,demo.cpp,meta.json}.   usage: confirm_seed.py C04 m1 [srcdir]"""
import sys, os, json, subprocess, shutil, tempfile, xml.etree.ElementTree as ET

def sh(cmd, cwd=None, timeout=3600):
    p = subprocess.run(cmd, shell=True, cwd=cwd, stdout=subprocess.PIPE, stderr=subprocess.STDOUT, timeout=timeout)
    return p.returncode, p.stdout.decode('utf-8', 'replace')

def main():
    prop, m = sys.argv[1], sys.argv[2]
    src = sys.argv[3] if len(sys.argv) > 3 else '/tmp/mut/out/%s/%s' % (prop, m)
    dst = '/verif/seeded/%s_%s' % (prop, m)
    wt = tempfile.mkdtemp(prefix='seedwt-', dir='/tmp')
    os.rmdir(wt)
    ran = []
    res = {}
    try:
        rc, out = sh('git -C /repo worktree add --detach %s HEAD' % wt)
        ran.append('git worktree add (rc %d)' % rc)
        # demo on pristine
        rc, out = sh('g++ -std=c++17 -O1 -I include %s/demo.cpp -o demo_pristine && ./demo_pristine' % src, cwd=wt)
        res['demo_pristine_rc'] = rc
        res['demo_pristine_tail'] = out[-300:]
        ran.append('g++ -std=c++17 -O1 -I include demo.cpp && ./a.out on pristine: rc %d' % rc)
        rc, out = sh('git apply %s/patch.diff' % src, cwd=wt)
        res['apply_rc'] = rc
        ran.append('git apply patch.diff: rc %d %s' % (rc, out[-200:]))
        rc, out = sh('g++ -std=c++17 -O1 -I include %s/demo.cpp -o demo_patched && ./demo_patched' % src, cwd=wt)
        res['demo_patched_rc'] = rc
        res['demo_patched_tail'] = out[-600:]
        ran.append('demo on patched tree: rc %d' % rc)
        rc, out = sh('cmake -G Ninja -S . -B _b -DPHYSICAL_QUANTITIES_PHQ_TEST=ON >/dev/null && cmake --build _b -j%s 2>&1 | tail -3' % os.environ.get('JOBS', '12'), cwd=wt, timeout=7200)
        res['build_rc'] = rc
        ran.append('cmake build of the full test suite on patched tree: rc %d' % rc)
        base = json.load(open('/root/.vp/BASELINE.json'))
        stable = set(base['stable_pass'])
        failed_stable = None
        for attempt in range(3):
            rc, out = sh('ctest --test-dir _b -j8 --timeout 900 --output-junit %s/junit.xml 2>&1 | tail -3' % wt, cwd=wt, timeout=7200)
            passed = set()
            failed = set()
            try:
                for tc in ET.parse(wt + '/junit.xml').getroot().iter('testcase'):
                    nm = tc.get('name')
                    ok = tc.get('status') == 'run' and tc.find('failure') is None
                    keys = ['%s::%s' % (nm, nm)]
                    if '.' in nm:
                        keys.append('%s::%s' % tuple(nm.split('.', 1)))
                    for key in keys:
                        (passed if ok else failed).add(key)
            except Exception as e:
                res['junit_error'] = str(e)
            fs = sorted((stable & failed) | (stable - passed - failed))
            if failed_stable is None:
                failed_stable = set(fs)
            else:
                failed_stable &= set(fs)     # a test must fail on every attempt to count (timing tests flake under load)
            ran.append('ctest attempt %d: %s ; stable-baseline tests not passing: %d' % (attempt + 1, out.strip().split('\n')[0][:100], len(fs)))
            if not failed_stable:
                break
        res['stable_tests_failing'] = sorted(failed_stable)[:20]
        res['n_stable_checked'] = len(stable)
        ok = res['demo_pristine_rc'] == 0 and res['apply_rc'] == 0 and res['demo_patched_rc'] != 0 and res['build_rc'] == 0 and not failed_stable
        res['confirmed'] = bool(ok)
        if ok:
            os.makedirs(dst, exist_ok=True)
            shutil.copy(src + '/patch.diff', dst + '/patch.diff')
            shutil.copy(src + '/demo.cpp', dst + '/demo.cpp')
            meta = {}
            try:
                meta = json.load(open(src + '/meta.json'))
            except Exception:
                pass
            out_meta = {'property': prop, 'id': '%s_%s' % (prop, m), 'summary': meta.get('summary'), 'files': meta.get('files'),
                        'needs': meta.get('needs'), 'why_tests_pass': meta.get('why_tests_pass'), 'author': 'independent sub-agent given only the property text',
                        'confirmed_by_me': res, 'ran': ran, 'repo_head': sh('git -C /repo rev-parse --short HEAD')[1].strip()}
            json.dump(out_meta, open(dst + '/meta.json', 'w'), indent=1)
        print(prop, m, 'CONFIRMED' if ok else 'REJECTED', json.dumps({k: v for k, v in res.items() if k.endswith('_rc') or k == 'stable_tests_failing'}))
    finally:
        sh('git -C /repo worktree remove --force %s' % wt)
        shutil.rmtree(wt, ignore_errors=True)

if __name__ == '__main__':
    main()
