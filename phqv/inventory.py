"""Inventory of the current /repo tree from `clang++ -fsyntax-only -Xclang -ast-print`.

One normalised record per declaration: classes (+base, shape), constructors, operators, member
functions, enums (+enumerators).  Recomputed on every run so that what is checked is what exists.
"""
import os, re, glob, subprocess, json
from . import harness as H

SHAPES = {'DimensionalScalar': 1, 'DimensionlessScalar': 1,
          'DimensionalPlanarVector': 2, 'DimensionlessPlanarVector': 2,
          'DimensionalVector': 3, 'DimensionlessVector': 3,
          'DimensionalSymmetricDyad': 6, 'DimensionlessSymmetricDyad': 6,
          'DimensionalDyad': 9, 'DimensionlessDyad': 9}
VALUE_CLASS = {1: None, 2: 'PlanarVector', 3: 'Vector', 6: 'SymmetricDyad', 9: 'Dyad'}
MATH = {'PlanarVector': 2, 'Vector': 3, 'SymmetricDyad': 6, 'Dyad': 9}


def split_top(s, sep=','):
    out, d, cur = [], 0, ''
    for ch in s:
        if ch in '<([{':
            d += 1
        elif ch in '>)]}':
            d -= 1
        if ch == sep and d == 0:
            out.append(cur.strip())
            cur = ''
        else:
            cur += ch
    if cur.strip():
        out.append(cur.strip())
    return out


def match_paren(s, i):
    """s[i] == '(' -> index of matching ')'"""
    d = 0
    for j in range(i, len(s)):
        if s[j] == '(':
            d += 1
        elif s[j] == ')':
            d -= 1
            if d == 0:
                return j
    return -1


def parse_param(p):
    p = p.strip()
    p = re.sub(r'\s*=\s*.*$', '', p)  # default args
    m = re.match(r'^(const\s+)?(.+?)\s*(&&|&|\*)?\s*([A-Za-z_]\w*)?$', p)
    if not m:
        return {'type': p, 'ref': '', 'name': ''}
    ty = m.group(2).strip()
    # "const NumericType number" : group(4) is the name; but "const Unit::Speed" w/o name is possible
    name = m.group(4) or ''
    if name and not m.group(3) and ty.endswith(('::', '<', ',')):
        ty, name = ty + name, ''
    return {'type': ty, 'ref': m.group(3) or '', 'name': name, 'const': bool(m.group(1))}


class Inventory:
    def __init__(self):
        self.classes = {}   # name -> dict
        self.enums = {}     # qualified name -> [enumerators]
        self.free_ops = []  # free operator declarations
        self.ast_lines = 0

    def quantity_names(self):
        return sorted(n for n, c in self.classes.items() if c['kind'] == 'quantity')


def all_headers(inc):
    hs = sorted(glob.glob(os.path.join(inc, 'PhQ', '*.hpp'))) + sorted(glob.glob(os.path.join(inc, 'PhQ', 'ConstitutiveModel', '*.hpp')))
    return [os.path.relpath(h, inc) for h in hs]


def run_ast_print(work):
    inc = H.include_dir(work)
    src = os.path.join(work, 'all.cpp')
    with open(src, 'w') as f:
        for h in all_headers(inc):
            f.write('#include "%s"\n' % h)
    out = os.path.join(work, 'ast.txt')
    with open(out, 'w') as fo:
        p = subprocess.run(['clang++-14', '-std=c++17', '-I', inc, '-fsyntax-only', '-Xclang', '-ast-print', src],
                           stdout=fo, stderr=subprocess.PIPE)
    if p.returncode != 0:
        raise H.BuildError('ast-print failed:\n' + p.stderr.decode()[:3000])
    return out


CLASS_RE = re.compile(r'^(\s*)template <typename NumericType(?: = double)?> class ([\w:]+)(?: : public (.*))? \{$')
ENUM_RE = re.compile(r'^(\s*)enum class (\w+) : (\w+) \{$')
NS_RE = re.compile(r'^(\s*)namespace (\w+) \{$')


def parse_ast(path):
    inv = Inventory()
    lines = open(path, encoding='utf-8', errors='replace').read().split('\n')
    inv.ast_lines = len(lines)
    i = 0
    n = len(lines)
    ns = []  # (indent, name)
    in_phq = False
    while i < n:
        l = lines[i]
        i += 1
        m = NS_RE.match(l)
        if m:
            ns.append((len(m.group(1)), m.group(2)))
            continue
        if ns and re.match(r'^\s*\}$', l) and len(l) - 1 == ns[-1][0]:
            ns.pop()
            continue
        nsn = [x[1] for x in ns]
        if not nsn or nsn[0] != 'PhQ':
            # std::hash specialisations etc. are not needed here
            continue
        m = ENUM_RE.match(l)
        if m:
            q = '::'.join(nsn[1:] + [m.group(2)])
            ens = []
            while i < n and not re.match(r'^\s*\};?$', lines[i]):
                e = lines[i].strip().rstrip(',')
                if e:
                    ens.append(re.sub(r'\s*=.*$', '', e))
                i += 1
            i += 1
            inv.enums[q] = {'underlying': m.group(3), 'enumerators': ens}
            continue
        m = CLASS_RE.match(l)
        if m and l.rstrip().endswith('{'):
            ind = len(m.group(1))
            name = m.group(2)
            base = m.group(3) or ''
            body = []
            while i < n and not (lines[i].startswith(' ' * ind + '};') and len(lines[i]) - len(lines[i].lstrip()) == ind):
                body.append(lines[i])
                i += 1
            i += 1
            if name in inv.classes and inv.classes[name]['members']:
                continue
            inv.classes[name] = parse_class(name, base, body, ind + 4)
            continue
        # non-template classes (Dimensions, Dimension::X, ConstitutiveModel)
        m2 = re.match(r'^(\s*)class (\w+)(?: : public (.*))? \{$', l)
        if m2:
            ind = len(m2.group(1))
            name = '::'.join(nsn[1:] + [m2.group(2)])
            body = []
            while i < n and not (lines[i].startswith(' ' * ind + '};') and len(lines[i]) - len(lines[i].lstrip()) == ind):
                body.append(lines[i])
                i += 1
            i += 1
            if name not in inv.classes:
                inv.classes[name] = parse_class(name, m2.group(3) or '', body, ind + 4)
                # nested enumerations (ConstitutiveModel::Type)
                k = 0
                while k < len(body):
                    me = ENUM_RE.match(body[k])
                    k += 1
                    if me:
                        ens = []
                        while k < len(body) and not re.match(r'^\s*\};?$', body[k]):
                            e = body[k].strip().rstrip(',')
                            if e:
                                ens.append(re.sub(r'\s*=.*$', '', e))
                            k += 1
                        inv.enums[name + '::' + me.group(2)] = {'underlying': me.group(3), 'enumerators': ens}
            continue
        # free operators at namespace scope
        m3 = re.match(r'^\s*template <typename NumericType> inline constexpr (.+?) (operator\S+?)\((.*)\)( noexcept)?( \{|;)?$', l)
        if m3 and len(nsn) == 1:
            inv.free_ops.append({'ret': m3.group(1), 'op': m3.group(2)[8:], 'params': [parse_param(p) for p in split_top(m3.group(3))],
                                 'defined': (m3.group(5) or '').strip() == '{'})
    return inv


def parse_class(name, base, body, mind):
    c = {'name': name, 'base': base, 'members': [], 'kind': 'other', 'shape': None, 'unit': None}
    bm = re.match(r'^(\w+)<(.*)>$', base.strip())
    if bm and bm.group(1) in SHAPES:
        c['kind'] = 'quantity'
        c['shape'] = SHAPES[bm.group(1)]
        c['basename'] = bm.group(1)
        targs = split_top(bm.group(2))
        c['unit'] = targs[0] if bm.group(1).startswith('Dimensional') else None
    elif name in MATH:
        c['kind'] = 'math'
        c['shape'] = MATH[name]
    elif name in SHAPES:
        c['kind'] = 'base'
        c['shape'] = SHAPES[name]
    access = 'private'
    short = name.split('::')[-1]
    j = 0
    while j < len(body):
        l = body[j]
        j += 1
        ind = len(l) - len(l.lstrip())
        s = l.strip()
        if ind == mind - 4 and s in ('public:', 'private:', 'protected:'):
            access = s[:-1]
            continue
        if ind != mind or not s:
            continue
        if s.startswith('friend ') or s.startswith('static_assert') or s.startswith('using '):
            continue
        mem = parse_member(s, short, access)
        if mem:
            c['members'].append(mem)
    return c


def parse_member(s, cname, access):
    orig = s
    tmpl = None
    if s.startswith('template <'):
        d = 0
        for k, ch in enumerate(s[9:]):
            if ch == '<':
                d += 1
            elif ch == '>':
                d -= 1
                if d == 0:
                    tmpl = s[10:9 + k]
                    s = s[9 + k + 1:].strip()
                    break
    quals = set()
    while True:
        m = re.match(r'^(static|constexpr|explicit|inline|virtual|friend)\s+', s)
        if not m:
            break
        quals.add(m.group(1))
        s = s[m.end():]
    # constructor / destructor
    m = re.match(r'^(~?)%s(?:<NumericType>)?\(' % re.escape(cname), s)
    if m:
        if m.group(1):
            return None
        e = match_paren(s, m.end() - 1)
        params = [parse_param(p) for p in split_top(s[m.end():e])] if e > m.end() else []
        tail = s[e + 1:]
        return {'kind': 'ctor', 'access': access, 'params': params, 'quals': sorted(quals), 'template': tmpl,
                'defaulted': '= default' in tail, 'deleted': '= delete' in tail, 'text': orig[:300]}
    # method / operator:  RET NAME(PARAMS) tail
    k = s.find('(')
    # operator() special
    mo = re.search(r'\boperator\s*(\(\)|\[\]|[^\s(]+)\s*\(', s)
    if mo:
        ret = s[:mo.start()].strip()
        opn = mo.group(1)
        st = mo.end() - 1
        e = match_paren(s, st)
        params = [parse_param(p) for p in split_top(s[st + 1:e])] if e > st + 1 else []
        tail = s[e + 1:]
        return {'kind': 'operator', 'op': opn, 'ret': ret, 'access': access, 'params': params, 'quals': sorted(quals),
                'template': tmpl, 'const': bool(re.match(r'^\s*const\b', tail)), 'defaulted': '= default' in tail,
                'text': orig[:300]}
    if k > 0:
        head = s[:k].strip()
        m = re.match(r'^(.*?)([A-Za-z_]\w*)$', head)
        if not m or not m.group(1).strip():
            return None
        ret = m.group(1).strip()
        e = match_paren(s, k)
        if e < 0:
            return None
        params = [parse_param(p) for p in split_top(s[k + 1:e])] if e > k + 1 else []
        tail = s[e + 1:]
        return {'kind': 'method', 'name': m.group(2), 'ret': ret, 'access': access, 'params': params,
                'quals': sorted(quals), 'template': tmpl, 'const': bool(re.match(r'^\s*const\b', tail)),
                'text': orig[:300]}
    # data member
    m = re.match(r'^(.+?)\s+(\w+)(\s*=.*)?;?$', s)
    if m and '(' not in s:
        return {'kind': 'field', 'type': m.group(1), 'name': m.group(2), 'access': access, 'quals': sorted(quals)}
    return None


def build(work):
    return parse_ast(run_ast_print(work))


def qname(t):
    """'Length<NumericType>' -> 'Length'; 'NumericType' -> None"""
    m = re.match(r'^(?:PhQ::)?([\w:]+)<NumericType>$', t.strip())
    return m.group(1) if m else None


if __name__ == '__main__':
    import sys
    w = H.scratch_dir()
    inv = build(w)
    qs = inv.quantity_names()
    print('quantity classes', len(qs))
    nct = sum(1 for q in qs for m in inv.classes[q]['members'] if m['kind'] == 'ctor' and m['access'] == 'public'
              and m['params'] and all(qname(p['type']) for p in m['params']))
    nop = sum(1 for q in qs for m in inv.classes[q]['members'] if m['kind'] == 'operator')
    print('ctors with all-quantity params', nct, 'operators', nop, 'free ops', len(inv.free_ops), 'enums', len(inv.enums))
    if len(sys.argv) > 1:
        json.dump({'classes': inv.classes, 'enums': inv.enums, 'free_ops': inv.free_ops}, open(sys.argv[1], 'w'), indent=1)
