"""Wrapper TUs: generation, lowering to IR with clang, native build with g++, symbolic execution.

Every wrapper has the uniform signature
    extern "C" void NAME(const TI* in, TO* out, long* iout)
and calls the real phq templates.  The same TU is (a) lowered to LLVM IR and executed symbolically,
(b) compiled natively with g++ (no -ffast-math) and called through ctypes to validate the encoding and
to replay counterexamples.
"""
import os, re, subprocess, shutil, tempfile, atexit, ctypes, hashlib, time
from concurrent.futures import ThreadPoolExecutor
import numpy as np
from . import terms as tm
from .terms import T, mk
from .irsym import parse as irparse
from .irsym.exec import Executor, State, Ptr, Unsupported, UNDEF

REPO = os.environ.get('PHQV_REPO', '/repo')
CTYPE = {'f32': 'float', 'f64': 'double', 'f80': 'long double'}
NPT = {'f32': np.float32, 'f64': np.float64, 'f80': np.longdouble}
FSIZE = {'f32': 4, 'f64': 8, 'f80': 16}

CLANG_FLAGS = ['-std=c++17', '-O1', '-ffp-contract=off', '-fno-vectorize', '-fno-slp-vectorize',
               '-fno-unroll-loops', '-S', '-emit-llvm', '-w', '-Wno-c++11-narrowing']
GXX_FLAGS = ['-std=c++17', '-O0', '-ffp-contract=off', '-fno-fast-math', '-fPIC', '-shared', '-w']

_scratch = []


def scratch_dir():
    base = os.environ.get('PHQV_SCRATCH_BASE') or tempfile.gettempdir()
    d = tempfile.mkdtemp(prefix='phqv-', dir=base)
    _scratch.append(d)
    return d


@atexit.register
def _cleanup():
    if os.environ.get('PHQV_KEEP'):
        return
    for d in _scratch:
        shutil.rmtree(d, ignore_errors=True)


_shim = {}


def include_dir(work):
    """copy of /repo/include with the clang front-end shim applied (DESIGN.md section 1)."""
    if work in _shim:
        return _shim[work]
    dst = os.path.join(work, 'inc')
    shutil.copytree(os.path.join(REPO, 'include'), dst)
    n = 0
    cm = os.path.join(dst, 'PhQ', 'ConstitutiveModel')
    if os.path.isdir(cm):
        for f in os.listdir(cm):
            p = os.path.join(cm, f)
            s = open(p).read()
            s2 = re.sub(r'template <typename NumericType = double>(\s*)class ConstitutiveModel::',
                        r'template <typename NumericType>\1class ConstitutiveModel::', s)
            if s2 != s:
                n += 1
                open(p, 'w').write(s2)
    _shim[work] = dst
    return dst


PREAMBLE = r'''
#include <cstring>
#include <cmath>
#include <type_traits>
%(includes)s
#ifdef __clang__
#define PHQV_FLATTEN __attribute__((flatten))
#else
#define PHQV_FLATTEN
#endif
namespace phqv {
template <class Q, class T> inline Q get(const T* p) {
  static_assert(std::is_trivially_copyable<Q>::value, "quantity must be trivially copyable");
  Q q; std::memcpy(static_cast<void*>(&q), p, sizeof(Q)); return q;
}
template <class Q, class T> inline void put(T* p, const Q& q) {
  static_assert(std::is_trivially_copyable<Q>::value, "quantity must be trivially copyable");
  std::memcpy(p, static_cast<const void*>(&q), sizeof(Q));
}
}
'''


class Wrapper:
    __slots__ = ('name', 'in_ty', 'n_in', 'out_ty', 'n_out', 'n_iout', 'body', 'meta', 'ir_name', 'n_iin', 'flatten')

    def __init__(self, name, in_ty, n_in, out_ty, n_out, body, n_iout=0, meta=None, n_iin=0, flatten=True):
        self.name, self.in_ty, self.n_in, self.out_ty, self.n_out = name, in_ty, n_in, out_ty, n_out
        self.body, self.n_iout, self.meta, self.n_iin, self.flatten = body, n_iout, meta or {}, n_iin, flatten

    def source(self):
        if not self.flatten:
            return 'extern "C" void %s(const %s* in, %s* out, long* iout, const long* iin) {\n%s\n}\n' % (
                self.name, CTYPE[self.in_ty], CTYPE[self.out_ty], self.body)
        return 'extern "C" PHQV_FLATTEN void %s(const %s* in, %s* out, long* iout, const long* iin) {\n%s\n}\n' % (
            self.name, CTYPE[self.in_ty], CTYPE[self.out_ty], self.body)


class BuildError(Exception):
    pass


def run_cmd(cmd, timeout=1800):
    p = subprocess.run(cmd, stdout=subprocess.PIPE, stderr=subprocess.PIPE, timeout=timeout)
    return p.returncode, p.stdout.decode('utf-8', 'replace'), p.stderr.decode('utf-8', 'replace')


class Unit:
    """one translation unit of wrappers"""

    def __init__(self, work, name, includes, wrappers, extra_src='', extra_clang=(), native=True):
        self.work, self.name, self.wrappers = work, name, wrappers
        self.includes = includes
        self.extra_src = extra_src
        self.tail_src = ''
        self.extra_clang = list(extra_clang)
        self.native = native
        self.src = os.path.join(work, name + '.cpp')
        self.ll = os.path.join(work, name + '.ll')
        self.so = os.path.join(work, name + '.so')
        self.mod = None
        self.lib = None
        self.errors = {}
        self.times = {}

    def write(self, wrappers=None):
        ws = self.wrappers if wrappers is None else wrappers
        inc = '\n'.join('#include "%s"' % i for i in self.includes)
        with open(self.src, 'w') as f:
            f.write(PREAMBLE % {'includes': inc})
            f.write(self.extra_src)
            for w in ws:
                f.write(w.source())
            f.write(self.tail_src)

    def compile_ir(self):
        inc = include_dir(self.work)
        t0 = time.time()
        ws = list(self.wrappers)
        for attempt in range(6):
            self.write(ws)
            rc, out, err = run_cmd(['clang++-14'] + CLANG_FLAGS + self.extra_clang + ['-I', inc, self.src, '-o', self.ll])
            if rc == 0:
                break
            # drop wrappers whose bodies fail to compile; they become "inconclusive", never violations
            bad = self.blame(err, ws)
            if not bad:
                raise BuildError('clang failed for %s:\n%s' % (self.name, err[:3000]))
            for w in bad:
                self.errors[w.name] = 'does not compile: ' + bad[w]
            ws = [w for w in ws if w not in bad]
        else:
            raise BuildError('clang failed repeatedly for %s' % self.name)
        self.compiled = ws
        self.times['clang'] = time.time() - t0
        t0 = time.time()
        self.mod = irparse.parse_module(open(self.ll).read())
        self.times['parse'] = time.time() - t0
        return self.mod

    def blame(self, err, ws):
        lines = open(self.src).read().split('\n')
        # map line numbers to wrappers
        starts = []
        for i, l in enumerate(lines):
            m = re.match(r'extern "C" (?:PHQV_FLATTEN )?void (\w+)\(', l)
            if m:
                starts.append((i + 1, m.group(1)))
        byname = {w.name: w for w in ws}
        bad = {}
        lasterr = ''
        for m in re.finditer(r'^(\S+?):(\d+):\d+: (fatal error|error|note): (.*)$', err, re.M):
            if m.group(3) != 'note':
                lasterr = m.group(4)
            if m.group(1) != self.src:
                continue
            ln = int(m.group(2))
            nm = None
            for s, n in starts:
                if s <= ln:
                    nm = n
                else:
                    break
            if nm and nm in byname and byname[nm] not in bad:
                bad[byname[nm]] = lasterr[:200]
        return bad

    def compile_native(self):
        if not self.native:
            return None
        inc = os.path.join(REPO, 'include')
        t0 = time.time()
        self.write(self.compiled)
        rc, out, err = run_cmd(['g++'] + GXX_FLAGS + ['-I', inc, self.src, '-o', self.so])
        self.times['g++'] = time.time() - t0
        if rc != 0:
            raise BuildError('g++ failed for %s:\n%s' % (self.name, err[:3000]))
        self.lib = ctypes.CDLL(self.so)
        return self.lib

    def call_native(self, w, inputs, iinputs=()):
        """inputs: sequence of numpy scalars / python floats of w.in_ty. returns (out array, iout list)"""
        fn = getattr(self.lib, w.name)
        fn.restype = None
        a = np.zeros(max(1, w.n_in), dtype=NPT[w.in_ty])
        for i, v in enumerate(inputs):
            a[i] = v
        o = np.zeros(max(1, w.n_out), dtype=NPT[w.out_ty])
        io = (ctypes.c_long * max(1, w.n_iout))()
        ii = (ctypes.c_long * max(1, w.n_iin))()
        for i, v in enumerate(iinputs):
            ii[i] = int(v) - (1 << 64) if int(v) >= (1 << 63) else int(v)
        fn(ctypes.c_void_p(a.ctypes.data), ctypes.c_void_p(o.ctypes.data), io, ii)
        return o[:w.n_out], [io[i] for i in range(w.n_iout)]


def build_units(units, jobs=16, native=True):
    """compile all units (IR and native) in parallel threads (the compilers are subprocesses)"""
    def one(u):
        try:
            u.compile_ir()
            if native:
                u.compile_native()
            return None
        except BuildError as e:
            return str(e)
    with ThreadPoolExecutor(max_workers=jobs) as ex:
        res = list(ex.map(one, units))
    return res


class PathResult:
    __slots__ = ('pc', 'out', 'iout', 'ret', 'ub', 'events', 'status')


class WrapperResult:
    """merged result of all paths of a wrapper"""

    def __init__(self):
        self.paths = []
        self.out = []       # merged term per output slot (None = never written on some path)
        self.iout = []
        self.ub = []        # (path condition list, kind, detail)
        self.npaths = 0
        self.functions = set()
        self.stubs = set()
        self.error = None


def input_terms(w, prefix='x'):
    return [tm.arg(w.in_ty, '%s%d' % (prefix, i)) for i in range(w.n_in)]


_init_cache = {}


def execute_wrapper(mod, w, summaries=None, inputs=None, prefix='x', init_tables=None, state=None):
    """init_tables: None = no dynamic initialisers are run first; 'all' or a set of global names = run those table
    initialisers (in llvm.global_ctors order) in the same state before the wrapper"""
    ex = Executor(mod, summaries)
    ex.max_paths = int((w.meta or {}).get('max_paths', ex.max_paths))
    st = State()
    if state is not None:
        st = state.clone()   # start from a given state (C19: after a dynamic-initialisation schedule)
        st.ub = []
        st.events = []
        st.status = None
        st.ret = None
    elif init_tables is not None:
        from .irsym import summaries as SM
        ck = (id(mod), init_tables if isinstance(init_tables, str) else tuple(sorted(init_tables)))
        if ck not in _init_cache:
            try:
                st0, _ = SM.run_initialisers(ex, st, None if init_tables == 'all' else init_tables)
                _init_cache[ck] = (st0, None, set(ex.functions_entered))
            except Unsupported as e:
                _init_cache[ck] = (None, 'unsupported (table initialiser): %s' % e, set())
        st0, err, fns = _init_cache[ck]
        if err:
            res = WrapperResult()
            res.error = err
            return res
        st = st0.clone()      # copy-on-write: the initialised tables are shared by every wrapper of the module
        ex.functions_entered |= fns
    isz = FSIZE[w.in_ty]
    osz = FSIZE[w.out_ty]
    rin = st.new_region(max(1, w.n_in) * isz, 'arg', 'in')
    rout = st.new_region(max(1, w.n_out) * osz, 'arg', 'out')
    riout = st.new_region(max(1, w.n_iout) * 8, 'arg', 'iout')
    riin = st.new_region(max(1, w.n_iin) * 8, 'arg', 'iin')
    ins = inputs if inputs is not None else input_terms(w, prefix)
    for i, t in enumerate(ins):
        st.regions[rin].cells[i * isz] = (10 if w.in_ty == 'f80' else isz, w.in_ty, t)
    for i in range(w.n_iin):
        st.regions[riin].cells[i * 8] = (8, 'i64', tm.arg('i64', 'k%d' % i))
    res = WrapperResult()
    try:
        done = ex.run(w.name, [Ptr(rin, 0), Ptr(rout, 0), Ptr(riout, 0), Ptr(riin, 0)], st)
    except Unsupported as e:
        res.error = 'unsupported: %s' % e
        res.functions = ex.functions_entered
        return res
    except RecursionError:
        res.error = 'unsupported: recursion limit'
        return res
    res.functions = ex.functions_entered
    res.stubs = ex.stubs_hit
    res.npaths = len(done)
    for s in done:
        p = PathResult()
        p.pc = s.pc
        p.status = s.status
        p.ub = s.ub
        p.events = s.events
        p.out = []
        fty = ('float', w.out_ty)
        for i in range(w.n_out):
            p.out.append(read_slot(ex, s, rout, i * osz, fty))
        p.iout = []
        for i in range(w.n_iout):
            p.iout.append(read_slot(ex, s, riout, i * 8, ('int', 64)))
        for v in p.out + p.iout:
            if isinstance(v, T) and any(a.startswith('__garbage') for a in tm.free_args(v)):
                p.ub.append(('result depends on uninitialised memory', tm.show(v, 3)))
                break
        # the input region must be unchanged (frame condition for every wrapper)
        for i, t in enumerate(ins):
            c = s.regions[rin].cells.get(i * isz)
            if c is None or c[2] is not t:
                p.ub.append(('input buffer modified', 'slot %d' % i))
        res.paths.append(p)
        for kind, detail in s.ub:
            res.ub.append((s.pc, kind, detail))
        if s.status != 'ret':
            res.ub.append((s.pc, 'path ends in ' + str(s.status), ''))
    res.out = [merge(res.paths, lambda p, i=i: p.out[i]) for i in range(w.n_out)]
    res.iout = [merge(res.paths, lambda p, i=i: p.iout[i]) for i in range(w.n_iout)]
    return res


def read_slot(ex, s, rid, off, ty):
    size = ex.storesize(ex.resolve(ty))
    reg = s.regions[rid]
    if not any(o < off + size and o + c[0] > off for o, c in reg.cells.items()):
        return None          # the slot was never written on this path
    nub = len(s.ub)
    try:
        v = ex.load(s, Ptr(rid, off), ty)
    except Unsupported:
        v = None
    if len(s.ub) > nub:
        del s.ub[nub:]
        return None
    return v if isinstance(v, T) else None


def conj(pc):
    r = tm.ic('i1', 1)
    for c in pc:
        r = mk('and', 'i1', r, c) if not tm.is_ic(r) else c
    return r


def merge(paths, sel):
    """ite-chain over path conditions; None if some normally-returning path leaves the slot unwritten"""
    ps = [p for p in paths if p.status == 'ret']
    if not ps:
        return None
    vals = [sel(p) for p in ps]
    if any(v is None or not isinstance(v, T) for v in vals):
        return None
    r = vals[-1]
    for p, v in zip(reversed(ps[:-1]), reversed(vals[:-1])):
        r = mk('select', v.ty, conj(p.pc), v, r)
    return r
