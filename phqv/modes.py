"""Interpretations of the neutral term DAG.

BIT   : IEEE-754 RNE bit-precise (z3 FP + BV)
REAL  : exact real arithmetic (z3 Real)
ROUND : standard model of rounding: every rounded operation returns exact*(1+d) (+e), |d| <= 2^-p
NUM   : concrete evaluation with numpy scalars (float32/float64/longdouble), used to validate the
        encoding against natively compiled code
"""
from fractions import Fraction
import z3
from . import terms as tm
from .terms import T


class ModeError(Exception):
    pass


FSORT = {'f32': z3.Float32(), 'f64': z3.Float64(), 'f80': z3.FPSort(15, 64)}
RNE = z3.RNE()


def smt_eq(a, b):
    """SMT-LIB '=' (for FP sorts: NaN = NaN, +0 /= -0), not z3py's overloaded IEEE fp.eq"""
    return z3.BoolRef(z3.Z3_mk_eq(a.ctx_ref(), a.as_ast(), b.as_ast()), a.ctx)


def smt_ne(a, b):
    return z3.Not(smt_eq(a, b))


def fp_const(ty, payload):
    s = FSORT[ty]
    if payload == 'inf':
        return z3.fpPlusInfinity(s)
    if payload == '-inf':
        return z3.fpMinusInfinity(s)
    if payload == 'nan':
        return z3.fpNaN(s)
    if payload == '-0':
        return z3.fpMinusZero(s)
    if payload == 0:
        return z3.fpPlusZero(s)
    return z3.fpRealToFP(RNE, z3.RealVal(str(payload)), s)


def fp_cmp(pred, a, b):
    nan = z3.Or(z3.fpIsNaN(a), z3.fpIsNaN(b))
    if pred == 'oeq': return z3.fpEQ(a, b)
    if pred == 'une': return z3.Not(z3.fpEQ(a, b))
    if pred == 'olt': return z3.fpLT(a, b)
    if pred == 'uge': return z3.Not(z3.fpLT(a, b))
    if pred == 'ole': return z3.fpLEQ(a, b)
    if pred == 'ugt': return z3.Not(z3.fpLEQ(a, b))
    if pred == 'ogt': return z3.fpGT(a, b)
    if pred == 'ule': return z3.Not(z3.fpGT(a, b))
    if pred == 'oge': return z3.fpGEQ(a, b)
    if pred == 'ult': return z3.Not(z3.fpGEQ(a, b))
    if pred == 'one': return z3.And(z3.Not(nan), z3.Not(z3.fpEQ(a, b)))
    if pred == 'ueq': return z3.Or(nan, z3.fpEQ(a, b))
    if pred == 'ord': return z3.Not(nan)
    if pred == 'uno': return nan
    raise ModeError('fcmp ' + pred)


def int_op(op, a, b):
    if op == 'add': return a + b
    if op == 'sub': return a - b
    if op == 'mul': return a * b
    if op == 'and': return a & b
    if op == 'or': return a | b
    if op == 'xor': return a ^ b
    if op == 'shl': return a << b
    if op == 'lshr': return z3.LShR(a, b)
    if op == 'ashr': return a >> b
    if op == 'udiv': return z3.UDiv(a, b)
    if op == 'sdiv': return a / b
    if op == 'urem': return z3.URem(a, b)
    if op == 'srem': return z3.SRem(a, b)
    raise ModeError(op)


def int_cmp(pred, a, b):
    return {'eq': lambda: a == b, 'ne': lambda: a != b, 'ugt': lambda: z3.UGT(a, b), 'uge': lambda: z3.UGE(a, b),
            'ult': lambda: z3.ULT(a, b), 'ule': lambda: z3.ULE(a, b), 'sgt': lambda: a > b, 'sge': lambda: a >= b,
            'slt': lambda: a < b, 'sle': lambda: a <= b}[pred]()


class Interp:
    """common driver: iterative post-order evaluation with memo"""

    def __init__(self):
        self.memo = {}

    def ev(self, t):
        m = self.memo
        if t.id in m:
            return m[t.id]
        for x in tm.walk(t, set(k for k in m)):
            m[x.id] = self.node(x, [m[a.id] if isinstance(a, T) else a for a in x.args])
        return m[t.id]

    # shared integer part (bit-vectors; i1 is Bool)
    def int_node(self, x, a):
        op, ty = x.op, x.ty
        if op == 'ic':
            if ty == 'i1':
                return z3.BoolVal(a[0] == 1)
            return z3.BitVecVal(a[0], tm.ibits(ty))
        if op == 'arg':
            if ty == 'i1':
                return z3.Bool(a[0])
            return z3.BitVec(a[0], tm.ibits(ty))
        if op in ('add', 'sub', 'mul', 'and', 'or', 'xor', 'shl', 'lshr', 'ashr', 'udiv', 'sdiv', 'urem', 'srem'):
            if ty == 'i1':
                if op == 'and': return z3.And(a[0], a[1])
                if op == 'or': return z3.Or(a[0], a[1])
                if op == 'xor': return z3.Xor(a[0], a[1])
                raise ModeError('i1 ' + op)
            return int_op(op, a[0], a[1])
        if op == 'not':
            return z3.Not(a[0])
        if op == 'icmp':
            x0, x1 = a[1], a[2]
            if z3.is_bool(x0):
                x0 = z3.If(x0, z3.BitVecVal(1, 1), z3.BitVecVal(0, 1))
                x1 = z3.If(x1, z3.BitVecVal(1, 1), z3.BitVecVal(0, 1))
            return int_cmp(a[0], x0, x1)
        if op == 'zext':
            if z3.is_bool(a[0]):
                n = tm.ibits(ty)
                return z3.If(a[0], z3.BitVecVal(1, n), z3.BitVecVal(0, n))
            return z3.ZeroExt(tm.ibits(ty) - a[0].size(), a[0])
        if op == 'sext':
            if z3.is_bool(a[0]):
                n = tm.ibits(ty)
                return z3.If(a[0], z3.BitVecVal(-1, n), z3.BitVecVal(0, n))
            return z3.SignExt(tm.ibits(ty) - a[0].size(), a[0])
        if op == 'trunc':
            r = z3.Extract(tm.ibits(ty) - 1, 0, a[0])
            if ty == 'i1':
                return r == z3.BitVecVal(1, 1)
            return r
        if op == 'concat':
            return z3.Concat(a[0], a[1])
        if op == 'extract':
            return z3.Extract(a[0], a[1], a[2])
        if op == 'select' and not tm.is_f(ty):
            return z3.If(a[0], a[1], a[2])
        if op == 'call':
            srt = [v.sort() for v in a[1:]]
            k = ('I', a[0], ty, tuple(str(s_) for s_ in srt))
            if not hasattr(self, 'iufs'):
                self.iufs = {}
            if k not in self.iufs:
                self.iufs[k] = z3.Function('%s_%s_%d' % (a[0], ty, len(self.iufs)), *(srt + [z3.BitVecSort(tm.ibits(ty))]))
            return self.iufs[k](*a[1:])
        return None


class Bit(Interp):
    def __init__(self):
        super().__init__()
        self.ufs = {}

    def uf(self, name, ty, nargs):
        k = (name, ty, nargs)
        if k not in self.ufs:
            s = FSORT[ty]
            self.ufs[k] = z3.Function('%s_%s' % (name, ty), *([s] * nargs + [s]))
        return self.ufs[k]

    def node(self, x, a):
        op, ty = x.op, x.ty
        if not tm.is_f(ty) and op not in ('fcmp', 'bitcast', 'fptosi', 'fptoui'):
            r = self.int_node(x, a)
            if r is None:
                raise ModeError('BIT: unsupported %s:%s' % (op, ty))
            return r
        if op == 'fc':
            return fp_const(ty, a[0])
        if op == 'arg':
            return z3.FP(a[0], FSORT[ty])
        if op == 'fadd': return z3.fpAdd(RNE, a[0], a[1])
        if op == 'fsub': return z3.fpSub(RNE, a[0], a[1])
        if op == 'fmul': return z3.fpMul(RNE, a[0], a[1])
        if op == 'fdiv': return z3.fpDiv(RNE, a[0], a[1])
        if op == 'frem': return z3.fpRem(a[0], a[1])
        if op == 'fneg': return z3.fpNeg(a[0])
        if op == 'fcmp': return fp_cmp(a[0], a[1], a[2])
        if op == 'select': return z3.If(a[0], a[1], a[2])
        if op in ('fpext', 'fptrunc'): return z3.fpFPToFP(RNE, a[0], FSORT[ty])
        if op == 'sitofp': return z3.fpSignedToFP(RNE, a[0], FSORT[ty])
        if op == 'uitofp': return z3.fpUnsignedToFP(RNE, a[0], FSORT[ty])
        if op == 'fptosi': return z3.fpToSBV(z3.RTZ(), a[0], z3.BitVecSort(tm.ibits(ty)))
        if op == 'fptoui': return z3.fpToUBV(z3.RTZ(), a[0], z3.BitVecSort(tm.ibits(ty)))
        if op == 'bitcast':
            src = x.args[0]
            if tm.is_f(ty) and not tm.is_f(src.ty):
                if ty == 'f80':
                    raise ModeError('BIT: bitcast to x86_fp80')
                return z3.fpBVToFP(a[0], FSORT[ty])
            if tm.is_f(src.ty) and not tm.is_f(ty):
                if src.ty == 'f80':
                    raise ModeError('BIT: bitcast of x86_fp80')
                return z3.fpToIEEEBV(a[0])
            raise ModeError('BIT: bitcast %s->%s' % (src.ty, ty))
        if op == 'call':
            fn = a[0]
            if fn == 'sqrt': return z3.fpSqrt(RNE, a[1])
            if fn == 'fabs': return z3.fpAbs(a[1])
            return self.uf(fn, ty, len(a) - 1)(*a[1:])
        raise ModeError('BIT: unsupported %s' % op)


class Real(Interp):
    """exact real semantics. side: list of definedness facts that were assumed (divisor != 0, radicand >= 0)."""

    def __init__(self, prefix='', argmap=None):
        super().__init__()
        self.argmap = argmap or {}
        self.defs = []      # constraints defining auxiliary variables (sqrt)
        self.side = []      # definedness assumptions
        self.ufs = {}
        self.n = 0
        self.prefix = prefix

    def fresh(self, base):
        self.n += 1
        return z3.Real('%s%s!%d' % (self.prefix, base, self.n))

    def uf(self, name, nargs):
        k = (name, nargs)
        if k not in self.ufs:
            self.ufs[k] = z3.Function('R_' + name, *([z3.RealSort()] * (nargs + 1)))
        return self.ufs[k]

    def rnd(self, x, val, kind):
        return val

    def node(self, x, a):
        op, ty = x.op, x.ty
        if not tm.is_f(ty) and op not in ('fcmp',):
            if op in ('fptosi', 'fptoui', 'bitcast'):
                raise ModeError('REAL: %s' % op)
            r = self.int_node(x, a)
            if r is None:
                raise ModeError('REAL: unsupported %s:%s' % (op, ty))
            return r
        if op == 'fc':
            p = a[0]
            if p == '-0':
                return z3.RealVal(0)
            if isinstance(p, str):
                # NaN / infinity have no real reading: an unconstrained fresh value (over-approximation; a comparison
                # against such a constant is decided below by its IEEE meaning for finite operands)
                return self.fresh('nonreal_' + p.strip('-'))
            return z3.RealVal(str(p))
        if op == 'arg':
            return self.argmap.get(a[0], z3.Real(a[0]))
        if op == 'fadd': return self.rnd(x, a[0] + a[1], 'add')
        if op == 'fsub': return self.rnd(x, a[0] - a[1], 'add')
        if op == 'fmul': return self.rnd(x, a[0] * a[1], 'mul')
        if op == 'fdiv':
            self.side.append(a[1] != 0)
            return self.rnd(x, a[0] / a[1], 'mul')
        if op == 'fneg': return -a[0]
        if op == 'fcmp':
            p = a[0]
            l, r = a[1], a[2]
            for side, other in ((1, 2), (2, 1)):
                t_ = x.args[side]
                if t_.op == 'fc' and isinstance(t_.args[0], str) and t_.args[0] != '-0':
                    k = t_.args[0]
                    if 'nan' in k:
                        return z3.BoolVal(p.startswith('u') and p != 'ord' or p == 'uno')
                    # finite operand against +-infinity
                    big = not k.startswith('-')
                    q = p[1:] if p not in ('ord', 'uno') else p
                    if side == 2:      # finite ? inf
                        res = {'eq': False, 'ne': True, 'lt': big, 'le': big, 'gt': not big, 'ge': not big, 'ord': True, 'uno': False}[q]
                    else:              # inf ? finite
                        res = {'eq': False, 'ne': True, 'lt': not big, 'le': not big, 'gt': big, 'ge': big, 'ord': True, 'uno': False}[q]
                    return z3.BoolVal(res)
            if p in ('oeq', 'ueq'): return l == r
            if p in ('one', 'une'): return l != r
            if p in ('olt', 'ult'): return l < r
            if p in ('ole', 'ule'): return l <= r
            if p in ('ogt', 'ugt'): return l > r
            if p in ('oge', 'uge'): return l >= r
            if p == 'ord': return z3.BoolVal(True)
            if p == 'uno': return z3.BoolVal(False)
            raise ModeError('fcmp ' + p)
        if op == 'select': return z3.If(a[0], a[1], a[2])
        if op == 'fpext': return a[0]
        if op == 'fptrunc': return self.rnd(x, a[0], 'mul')
        if op in ('sitofp', 'uitofp'):
            src = x.args[0]
            if tm.is_ic(src):
                return z3.RealVal(tm.sval(src) if op == 'sitofp' else src.args[0])
            raise ModeError('REAL: int->fp of symbolic')
        if op == 'call':
            fn = a[0]
            if fn == 'sqrt':
                y = self.fresh('sqrt')
                self.defs.append(y >= 0)
                self.defs.append(y * y == a[1])
                self.side.append(a[1] >= 0)
                return self.rnd(x, y, 'add')
            if fn == 'fabs':
                return z3.If(a[1] >= 0, a[1], -a[1])
            if fn == 'pow' and x.args[2].op == 'fc' and isinstance(x.args[2].args[0], Fraction) \
                    and x.args[2].args[0].denominator == 1 and 0 < x.args[2].args[0] <= 8:
                # libm pow with a small constant integer exponent: exact power, then an error of at most one ulp
                # (two rounding units) - glibc's documented accuracy, an assumption of the claim
                r = a[1]
                for _ in range(int(x.args[2].args[0]) - 1):
                    r = r * a[1]
                return self.rnd(x, self.rnd(x, r, 'mul'), 'mul')
            return self.uf(fn, len(a) - 1)(*a[1:])
        if op == 'bitcast':
            raise ModeError('REAL: bitcast')
        raise ModeError('REAL: unsupported %s' % op)


class Round(Real):
    """standard model: fl(a op b) = (a op b)(1+d) [+ e],  |d| <= u = 2^-p, |e| <= 2^(emin-p).
    kind 'add' (add/sub/sqrt) is exact in the subnormal range, so no e term.
    """

    def __init__(self, prefix='', underflow=False):
        super().__init__(prefix)
        self.rcons = []     # bounds on rounding variables
        self.nround = 0
        self.underflow = underflow

    def rnd(self, x, val, kind):
        ty = x.ty
        p = tm.FPREC[ty]
        u = z3.RealVal('1/%d' % (1 << p))
        self.nround += 1
        d = z3.Real('%sd!%d' % (self.prefix, self.nround))
        self.rcons.append(d >= -u)
        self.rcons.append(d <= u)
        r = val * (1 + d)
        if self.underflow and kind == 'mul':
            e = z3.Real('%se!%d' % (self.prefix, self.nround))
            eta = z3.RealVal(str(Fraction(2) ** (tm.FEMIN[ty] - p)))
            self.rcons.append(e >= -eta)
            self.rcons.append(e <= eta)
            r = r + e
        return r


# ------------------------------------------------------------------------------------ concrete
import numpy as np

NPT = {'f32': np.float32, 'f64': np.float64, 'f80': np.longdouble}


def frac_to_np(ty, p):
    t = NPT[ty]
    if p == 'inf': return t(np.inf)
    if p == '-inf': return t(-np.inf)
    if p == 'nan': return t(np.nan)
    if p == '-0': return t(-0.0)
    n, d = p.numerator, p.denominator
    sh = d.bit_length() - 1
    if d != 1 << sh:
        # not dyadic: only arises for decimal literals that are exactly representable anyway
        return t(n) / t(d)
    neg = n < 0
    n = abs(n)
    # reduce n to <= 64 bits
    extra = 0
    while n and n % 2 == 0:
        n //= 2
        extra += 1
    if n >= 1 << 64:
        raise ModeError('constant not representable')
    hi, lo = n >> 32, n & 0xFFFFFFFF
    v = np.ldexp(t(hi), 32) + t(lo)
    v = np.ldexp(v, extra - sh)
    return -v if neg else v


_libm = None
_libstdcxx = None


def libm_call(fn, ty, args):
    """the C library's own function (glibc), so that the comparison with native code is exact"""
    global _libm
    import ctypes
    if ty == 'f80':
        raise ModeError('NUM: libm %s for long double not callable through ctypes' % fn)
    if _libm is None:
        _libm = ctypes.CDLL('libm.so.6')
    name = fn + ('f' if ty == 'f32' else '')
    f = getattr(_libm, name, None)
    if f is None:
        raise ModeError('NUM: call ' + fn)
    ct = ctypes.c_float if ty == 'f32' else ctypes.c_double
    f.restype = ct
    f.argtypes = [ct] * len(args)
    return NPT[ty](f(*[float(x) for x in args]))


class Num:
    """concrete evaluator; env maps arg name -> numpy scalar / python int"""

    def __init__(self, env):
        self.env = env
        self.memo = {}

    def ev(self, t):
        m = self.memo
        if t.id in m:
            return m[t.id]
        with np.errstate(all='ignore'):
            for x in tm.walk(t, set(m)):
                m[x.id] = self.node(x, [m[a.id] if isinstance(a, T) else a for a in x.args])
        return m[t.id]

    def node(self, x, a):
        op, ty = x.op, x.ty
        if op == 'arg':
            v = self.env[a[0]]
            if tm.is_f(ty):
                return NPT[ty](v)
            return int(v) & ((1 << tm.ibits(ty)) - 1)
        if op == 'fc':
            return frac_to_np(ty, a[0])
        if op == 'ic':
            return a[0]
        if op == 'fadd': return a[0] + a[1]
        if op == 'fsub': return a[0] - a[1]
        if op == 'fmul': return a[0] * a[1]
        if op == 'fdiv': return a[0] / a[1]
        if op == 'fneg': return -a[0]
        if op == 'fcmp':
            p, l, r = a
            un = bool(np.isnan(l) or np.isnan(r))
            base = {'eq': l == r, 'ne': l != r, 'lt': l < r, 'le': l <= r, 'gt': l > r, 'ge': l >= r}
            if p in ('ord',): return int(not un)
            if p in ('uno',): return int(un)
            if p[0] == 'o':
                return int((not un) and bool(base[p[1:]]))
            return int(un or bool(base[p[1:]]))
        if op == 'select':
            return a[1] if a[0] else a[2]
        if op in ('fpext', 'fptrunc'):
            return NPT[ty](a[0])
        if op == 'sitofp':
            b = tm.ibits(x.args[0].ty)
            v = a[0] - (1 << b) if a[0] >> (b - 1) else a[0]
            return NPT[ty](v)
        if op == 'uitofp':
            return NPT[ty](a[0])
        if op == 'call':
            fn = a[0]
            if fn == 'sqrt':
                return NPT[ty](np.sqrt(a[1]))
            if fn == 'fabs':
                return NPT[ty](np.abs(a[1]))
            return libm_call(fn, ty, a[1:])
        if op == 'bitcast':
            src = x.args[0]
            if tm.is_f(ty) and not tm.is_f(src.ty):
                if ty == 'f80':
                    raise ModeError('NUM: bitcast f80')
                return np.frombuffer(int(a[0]).to_bytes(tm.FBITS[ty] // 8, 'little'), dtype=NPT[ty])[0]
            if tm.is_f(src.ty):
                if src.ty == 'f80':
                    raise ModeError('NUM: bitcast f80')
                return int.from_bytes(NPT[src.ty](a[0]).tobytes(), 'little')
        if op == 'call' and a[0] == 'hashbytes':
            import ctypes
            global _libstdcxx
            if _libstdcxx is None:
                _libstdcxx = ctypes.CDLL('libstdc++.so.6')
            f = _libstdcxx._ZSt11_Hash_bytesPKvmm
            f.restype = ctypes.c_size_t
            f.argtypes = [ctypes.c_char_p, ctypes.c_size_t, ctypes.c_size_t]
            nb = tm.ibits(x.args[1].ty) // 8
            return int(f(int(a[1]).to_bytes(nb, 'little'), nb, int(a[2])))
        if op == 'call':
            raise ModeError('NUM: call ' + str(a[0]))
        bits = tm.ibits(ty)
        mask = (1 << bits) - 1

        def s(v, b):
            return v - (1 << b) if v >> (b - 1) else v
        if op in ('add', 'sub', 'mul', 'and', 'or', 'xor', 'shl', 'lshr', 'ashr'):
            l, r = a
            if op == 'add': return (l + r) & mask
            if op == 'sub': return (l - r) & mask
            if op == 'mul': return (l * r) & mask
            if op == 'and': return l & r
            if op == 'or': return l | r
            if op == 'xor': return l ^ r
            if op == 'shl': return (l << r) & mask
            if op == 'lshr': return l >> r
            if op == 'ashr': return (s(l, bits) >> r) & mask
        if op == 'not':
            return 1 - a[0]
        if op == 'icmp':
            b = tm.ibits(x.args[1].ty)
            return int(tm.ICMP[a[0]](a[1], a[2], s(a[1], b), s(a[2], b)))
        if op == 'zext': return a[0]
        if op == 'sext':
            b = tm.ibits(x.args[0].ty)
            return s(a[0], b) & mask
        if op == 'trunc': return a[0] & mask
        if op == 'concat':
            return (a[0] << tm.ibits(x.args[1].ty)) | a[1]
        if op == 'extract':
            return (a[2] >> a[1]) & ((1 << (a[0] - a[1] + 1)) - 1)
        if op in ('fptosi', 'fptoui'):
            return int(a[0]) & mask
        raise ModeError('NUM: unsupported %s' % op)
