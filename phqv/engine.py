"""Parallel driver: one process per translation unit (compile -> parse -> execute -> solve -> validate)."""
import os, re, sys, time, traceback, multiprocessing as mp, hashlib
import numpy as np
import z3
from . import harness as H, terms as tm, modes, core
from .core import Ob
from .irsym import summaries


class UnitSpec:
    def __init__(self, name, includes, wrappers, payload=None, extra_src='', extra_clang=(), native=True):
        self.name, self.includes, self.wrappers, self.payload = name, includes, wrappers, payload
        self.extra_src, self.extra_clang, self.native = extra_src, tuple(extra_clang), native


_WORKER = None
_WORK = None


def _run_one(spec):
    t0 = time.time()
    out = {'name': spec.name, 'obs': [], 'functions': [], 'stubs': [], 'paths': 0, 'validated': 0, 'mismatch': [],
           'times': {}, 'error': None, 'notes': []}
    try:
        u = H.Unit(_WORK, spec.name, spec.includes, spec.wrappers, spec.extra_src, spec.extra_clang, spec.native)
        u.tail_src = getattr(spec, 'tail_src', '')
        u.compile_ir()
        if spec.native:
            u.compile_native()
        out['times'] = dict(u.times)
        ctx = Ctx(u, spec, out)
        skipfile = os.path.join(_WORK, spec.name + '.skip')
        ctx.skip = set(l.rstrip('\n') for l in open(skipfile)) if os.path.exists(skipfile) else set()
        core.start_watchdog(skipfile)
        core.BUDGET['spent'] = 0.0
        core.BUDGET['limit'] = float(os.environ.get('PHQV_UNIT_BUDGET_S', '200' if core.tier() == 'quick' else '3600'))
        _WORKER(ctx)
        out['times']['total'] = time.time() - t0
    except H.BuildError as e:
        out['error'] = 'build: ' + str(e)[:1500]
    except Exception as e:
        out['error'] = 'worker: ' + traceback.format_exc()[-2500:]
    out['obs'] = [o.to_dict() if isinstance(o, Ob) else o for o in out['obs']]
    return out


def run_units(specs, worker, work, jobs=None):
    global _WORKER, _WORK
    _WORKER = worker
    _WORK = work
    H.include_dir(work)
    jobs = jobs or min(16, os.cpu_count() or 4)
    if jobs == 1:
        return [_run_one(s) for s in specs]
    from concurrent.futures import ProcessPoolExecutor
    from concurrent.futures.process import BrokenProcessPool
    ctx = mp.get_context('fork')
    results = [None] * len(specs)
    pending = list(range(len(specs)))
    # a worker that dies (e.g. the natively compiled real code aborts) breaks the pool: the units that did not
    # finish are retried one process each so that only the guilty unit is lost
    for attempt in range(4):
        if not pending:
            break
        with ProcessPoolExecutor(max_workers=min(jobs, len(pending)), mp_context=ctx) as pool:
            futs = {i: pool.submit(_run_one, specs[i]) for i in pending}
            for i, f in futs.items():
                try:
                    results[i] = f.result()
                except BrokenProcessPool:
                    results[i] = None
                except Exception as e:
                    results[i] = {'name': specs[i].name, 'obs': [], 'functions': [], 'stubs': [], 'paths': 0, 'validated': 0,
                                  'mismatch': [], 'times': {}, 'error': 'worker: %s' % e, 'notes': []}
        pending = [i for i in pending if results[i] is None]
    for i in pending:
        results[i] = {'name': specs[i].name, 'obs': [], 'functions': [], 'stubs': [], 'paths': 0, 'validated': 0, 'mismatch': [],
                      'times': {}, 'error': 'worker process died (the natively compiled code aborted or was killed)', 'notes': []}
    return results


def chunk(ws, n):
    n = max(1, n)
    k = (len(ws) + n - 1) // n
    return [ws[i:i + k] for i in range(0, len(ws), k)] if ws else []


from fractions import Fraction as _F
GRID = [_F(0), '-0', _F(1), _F(-1), _F(2), _F(3), _F(1, 2), _F(-5, 2), _F(7), _F(29, 4), _F(1, 8), _F(-11)]
GRID_ORDER = [2, 7, 5, 12, 3, 0, 8, 13, 4, 6, 9, 10, 11, 14, 15, 1]
GRID_INEXACT = [_F(1, 3), _F(-1, 10), _F(355, 113), _F(10, 7)]
COMPOSITIONAL_ABOVE = 3
SPECIALS = [0.0, -0.0, 1.0, -1.0, 0.5, 2.0, 3.0, 1e-3, 1e3, 0.1, 1e10, -1e-10, 7.25, -2.5, 1.0 / 3.0]


class Ctx:
    """per-unit context handed to check workers"""

    def __init__(self, unit, spec, out):
        self.unit, self.spec, self.out = unit, spec, out
        self.results = {}
        self.byname = {w.name: w for w in unit.wrappers}
        self.compiled = {w.name for w in unit.compiled}
        self.rng = np.random.default_rng(core.seed() + int(hashlib.md5(spec.name.encode()).hexdigest()[:8], 16))
        self.timeout = int(os.environ.get('PHQV_TIMEOUT_MS', '10000' if core.tier() == 'quick' else '120000'))
        self.nvalid = 3 if core.tier() == 'quick' else 8
        self.summaries = summaries.base()
        self.init_tables = None

    def result(self, name):
        """symbolic execution result of wrapper `name` (cached); None if it did not compile"""
        if name in self.results:
            return self.results[name]
        if name not in self.compiled:
            self.results[name] = None
            return None
        w = self.byname[name]
        r = H.execute_wrapper(self.unit.mod, w, self.summaries, init_tables=self.init_tables)
        self.results[name] = r
        self.out['paths'] += r.npaths
        for f in r.functions:
            self.out['functions'].append(f)
        for f in r.stubs:
            self.out['stubs'].append(f)
        if r.error is None and self.unit.lib is not None:
            self.validate(w, r)
        return r

    def why_missing(self, name):
        if name not in self.compiled:
            return self.unit.errors.get(name, 'wrapper did not compile')
        r = self.results.get(name)
        if r is not None and r.error:
            return r.error
        return 'output slot not written on every path'

    def random_inputs(self, w, k):
        t = H.NPT[w.in_ty]
        sets = []
        for j in range(k):
            if j == 0:
                xs = [t(SPECIALS[(i * 7 + 3) % len(SPECIALS)]) for i in range(w.n_in)]
            else:
                mag = self.rng.choice([1.0, 1e-3, 1e3, 1e-6, 1e6])
                xs = [t(v) for v in self.rng.normal(size=w.n_in) * mag]
            sets.append(xs)
        return sets

    def random_iinputs(self, w, j):
        if not w.n_iin:
            return []
        dom = (w.meta or {}).get('iin_domain')
        if dom:
            return [int(dom[i][int(self.rng.integers(0, len(dom[i])))]) for i in range(w.n_iin)]
        if j == 0:
            return [((i * 5) % 7) - 3 for i in range(w.n_iin)]
        return [int(v) for v in self.rng.integers(-128, 128, size=w.n_iin)]

    def validate(self, w, r):
        """encoding validation: NUM evaluation of the executed terms vs the natively compiled wrapper"""
        for t in list(r.out) + list(r.iout):
            if t is not None and any(a.startswith('__garbage') for a in tm.free_args(t)):
                return      # the result depends on never-written memory: nothing to validate (the obligations see the free variable)
        for j, xs in enumerate(self.random_inputs(w, self.nvalid)):
            ks = self.random_iinputs(w, j)
            try:
                o, io = self.unit.call_native(w, xs, ks)
            except Exception as e:
                self.out['notes'].append('native call failed %s: %s' % (w.name, e))
                return
            env = {'x%d' % i: x for i, x in enumerate(xs)}
            env.update({'k%d' % i: k for i, k in enumerate(ks)})
            ev = modes.Num(env)
            ok = True
            try:
                for i, t in enumerate(r.out):
                    if t is None:
                        continue
                    v = H.NPT[w.out_ty](ev.ev(t))
                    if not same_float(v, o[i]):
                        ok = False
                        self.out['mismatch'].append('%s out[%d]: native %r encoded %r inputs %s' % (
                            w.name, i, o[i], v, [core.hexf(x) for x in xs]))
                for i, t in enumerate(r.iout):
                    if t is None:
                        continue
                    v = int(ev.ev(t))
                    b = tm.ibits(t.ty) if t.ty != 'i1' else 1
                    nat = io[i] & ((1 << b) - 1)
                    if v != nat:
                        ok = False
                        self.out['mismatch'].append('%s iout[%d]: native %r encoded %r' % (w.name, i, nat, v))
            except modes.ModeError as e:
                continue
            if ok:
                self.out['validated'] += 1
            else:
                r.error = 'encoding mismatch against native code'

    # ------------------------------------------------------------------ generic obligations
    def ob(self, oid, cls, mode, desc):
        o = Ob(oid, cls, mode, desc)
        self.out['obs'].append(o)
        return o

    def bit_equal(self, o, lhs, rhs, w, assumptions=(), key=None, replay=None):
        """obligation: for all inputs, every lhs[i] is the same value as rhs[i] (SMT-LIB '=' on FP: NaN = NaN,
        +0 /= -0).  lhs/rhs are term lists.  On sat, the model is replayed natively via `replay(inputs)` which
        returns (reproduces: bool, text)."""
        o.key = key
        if any(t is None for t in lhs) or any(t is None for t in rhs):
            o.verdict = 'inconclusive'
            o.reason = o.reason or 'missing term'
            return o
        if len(lhs) != len(rhs):
            o.verdict = 'inconclusive'
            o.reason = 'shape mismatch %d vs %d' % (len(lhs), len(rhs))
            return o
        o.syntactic = all(a is b for a, b in zip(lhs, rhs))
        o.hash = hashlib.md5(('|'.join('%d=%d' % (a.id, b.id) for a, b in zip(lhs, rhs))).encode()).hexdigest() \
            if not o.syntactic else 'syn'
        try:
            it = modes.Bit()
            diffs = [modes.smt_ne(it.ev(a), it.ev(b)) for a, b in zip(lhs, rhs) if a is not b]
            asm = [it.ev(a) for a in assumptions]
        except modes.ModeError as e:
            o.verdict = 'inconclusive'
            o.reason = str(e)
            return o
        if diffs and replay is not None and w.n_in and not w.n_iin:
            # candidate search by evaluation of the encoding: both sides are evaluated (NUM reading of the executed terms)
            # on the bounded value grid; a difference is a candidate that is replayed natively exactly like a solver
            # model.  This can only ever produce a (replayed) violation - it never discharges anything; it exists because
            # z3 does not finish the bit-blasted query when wide-format division or square roots are involved.
            cand = self.num_search([(a, b) for a, b in zip(lhs, rhs) if a is not b], w, assumptions)
            if cand is not None:
                try:
                    rep, text = replay(cand)
                except Exception as e:
                    rep, text = False, 'replay failed: %s' % e
                if rep:
                    o.verdict = 'violated'
                    o.reason = text
                    o.model = [core.hexf(x) for x in cand]
                    o.replay = self.save_case(o, cand, getattr(replay, 'case', {}))
                    return o
        if not diffs:
            cons = asm + [z3.BoolVal(False)]
        else:
            cons = asm + [z3.Or(*diffs)]
            if len(diffs) >= 1:
                # bounded pre-pass per differing component: only the inputs that component depends on are
                # restricted to the value grid, which keeps the SAT search tiny
                S = modes.FSORT[w.in_ty]
                g = [modes.fp_const(w.in_ty, p) for p in GRID] + [modes.fp_const(w.in_ty, core.rnd_frac(q, w.in_ty)) for q in GRID_INEXACT]
                pairs = [(a, b) for a, b in zip(lhs, rhs) if a is not b]
                for (a, b), dz in list(zip(pairs, diffs))[:12]:
                    names = sorted(set(tm.free_args(a)) | set(tm.free_args(b)))
                    if not names or len(names) > 6 or not all(nm_.startswith('x') for nm_ in names):
                        continue
                    kk = max(2, min(len(g), int(round(4000 ** (1.0 / max(1, len(names)))))))
                    # smallest grid first: two values per input already separate most wrong formulas, and keep the
                    # query easy when the terms contain square roots and divisions in the wider formats
                    for k_ in ([2, 3, kk] if kk > 3 else [2, kk] if kk > 2 else [kk]):
                        gsel = [g[j] for j in GRID_ORDER[:k_]]
                        restrict = [z3.Or(*[modes.smt_eq(z3.FP(nm_, S), c) for c in gsel]) for nm_ in names]
                        v, model, secs, _ = core.solve(asm + [dz] + restrict, min(self.timeout, 10000))
                        o.secs += secs
                        if v == 'sat':
                            return self.decide(o, asm + [dz] + restrict, w, replay, grid=False)
                        if v == 'unsat' and k_ == kk:
                            break
        return self.decide(o, cons, w, replay, grid=bool(diffs))

    def num_search(self, pairs, w, assumptions=(), budget=3000):
        """first grid point (values of GRID / GRID_INEXACT per input) at which some pair of terms evaluates differently"""
        import itertools
        t = H.NPT[w.in_ty]
        vals = []
        for p in GRID:
            vals.append(t(-0.0) if p == '-0' else t(p.numerator) / t(p.denominator))
        for q in GRID_INEXACT:
            vals.append(t(q.numerator) / t(q.denominator))
        # inexact values first: precision-loss bugs are invisible on values that are exact in every format
        order = [vals[j] for j in [12, 7, 2, 15, 5, 0, 13, 3, 8, 14, 4, 6, 9, 10, 11, 1] if j < len(vals)]
        names = sorted({n for a, b in pairs for n in (set(tm.free_args(a)) | set(tm.free_args(b)))})
        if not names or not all(re.match(r'^x\d+$', n) for n in names) or len(names) > 12:
            return None
        k = max(2, min(len(order), int(budget ** (1.0 / len(names)))))
        n = 0
        for combo in itertools.product(order[:k], repeat=len(names)):
            n += 1
            if n > budget:
                break
            env = dict(zip(names, combo))
            ev = modes.Num(env)
            try:
                if any(int(ev.ev(c)) == 0 for c in assumptions):
                    continue
                for a, b in pairs:
                    if a.ty.startswith('f'):
                        differ = not same_float(H.NPT[a.ty](ev.ev(a)), H.NPT[b.ty](ev.ev(b)))
                    else:
                        differ = int(ev.ev(a)) != int(ev.ev(b))
                    if differ:
                        xs = [env.get('x%d' % i, t(1)) for i in range(w.n_in)]
                        return xs
            except Exception:
                return None
        return None

    def decide(self, o, cons, w, replay=None, grid=True, want_smt=None):
        """pose the negated obligation `cons` (z3 constraints over x<i>/k<i>); unsat = holds.  A sat model is
        replayed natively through `replay(xs, ks)` -> (reproduces, text)."""
        v = None
        secs0 = 0.0
        smt = None
        model = None
        if grid and w.n_in:
            # bounded first pass: inputs restricted to a small grid of values (a sat answer under the
            # restriction is a sat answer of the full query; unsat/unknown falls through to the full query)
            S = modes.FSORT[w.in_ty]
            g = [modes.fp_const(w.in_ty, p) for p in GRID] + [modes.fp_const(w.in_ty, core.rnd_frac(q, w.in_ty)) for q in GRID_INEXACT]
            restrict = [z3.Or(*[modes.smt_eq(z3.FP('x%d' % i, S), c) for c in g]) for i in range(w.n_in)]
            v, model, secs0, _ = core.solve(cons + restrict, min(self.timeout, 20000), want_smt=False)
            if v != 'sat':
                v = None
        if v is None:
            ws = want_smt if want_smt is not None else (len(self.out['obs']) % 40 == 1 or not o.syntactic)
            v, model, secs, smt = core.solve(cons, self.timeout, want_smt=ws)
        else:
            secs = 0.0
        o.secs = (o.secs or 0.0) + secs + secs0
        o.smt = smt
        if o.hash is None:
            o.hash = hashlib.md5((o.oid + str(len(cons))).encode()).hexdigest()
        if v == 'unsat':
            o.verdict = 'discharged'
        elif v == 'sat':
            xs = core.model_inputs(model, ['x%d' % i for i in range(w.n_in)], w.in_ty)
            ks = core.model_ints(model, ['k%d' % i for i in range(w.n_iin)])
            o.model = [core.hexf(x) for x in xs] + ks
            if replay is None:
                o.verdict = 'inconclusive'
                o.reason = 'candidate counterexample, no replay available'
            else:
                try:
                    rep, text = replay(xs, ks) if w.n_iin else replay(xs)
                except Exception as e:
                    rep, text = False, 'replay failed: %s' % e
                if rep:
                    o.verdict = 'violated'
                    o.reason = text
                    o.replay = self.save_case(o, xs, getattr(replay, 'case', {}), ks)
                else:
                    o.verdict = 'inconclusive'
                    o.reason = 'solver counterexample did not reproduce natively: ' + text
        else:
            o.verdict = 'inconclusive'
            o.reason = 'solver: ' + v
        return o

    # ------------------------------------------------------------------ REAL / ROUND obligations
    def round_bound(self, o, term, spec, w, K, positive=True, mag=None, assume=None, key=None, mode='ROUND',
                    out_index=0, underflow=False, assume_defined=False, replay=None):
        o = self._round_bound(o, term, spec, w, K, positive, mag, assume, key, mode, out_index, underflow, assume_defined, replay)
        if mode == 'ROUND' and K and term is not None and assume is None and o.verdict not in ('discharged', 'violated') and w.n_in:
            # no verdict (solver unknown, error analysis not applicable): realisation search from a default seed over nine
            # decades of magnitude.  It can only ever produce a natively reproduced violation, never a discharge.
            try:
                rp = replay or self.round_replay(w, spec, K, mag, out_index, positive, wide=True)
                t = H.NPT[w.in_ty]
                rep, text = rp([t(0)] * w.n_in)
            except Exception as e:
                rep, text = False, 'fallback search failed: %s' % e
            if rep:
                o.verdict = 'violated'
                o.reason = text + ' [found by the default-seed realisation search; solver verdict was: %s]' % (o.reason or '')[:80]
                o.replay = self.save_case(o, [H.NPT[w.in_ty](0)] * w.n_in, getattr(rp, 'case', {}), [])
        return o

    def _round_bound(self, o, term, spec, w, K, positive=True, mag=None, assume=None, key=None, mode='ROUND',
                     out_index=0, underflow=False, assume_defined=False, replay=None):
        """obligation (ROUND): for all real inputs satisfying the assumptions and all admissible rounding errors,
        |impl - spec| <= K * 2^-p * M  where M = |spec| or mag(A, xs).  (REAL): impl == spec exactly.
        spec/mag/assume are functions (A, xs) -> value / value / list of constraints over the Z3Alg."""
        from .algebra import Z3Alg
        o.key = key or o.oid
        o.mode = mode
        if term is None:
            o.reason = o.reason or 'missing term'
            return o
        T = term.ty
        nops = tm.count_ops(term)
        if mode == 'ROUND' and nops > COMPOSITIONAL_ABOVE:
            done = self.round_compositional(o, term, spec, w, K, positive, mag, assume, out_index, nops, assume_defined)
            if done:
                return o
        try:
            it = modes.Round(underflow=underflow) if mode == 'ROUND' else modes.Real()
            r = it.ev(term)
        except modes.ModeError as e:
            o.reason = str(e)
            return o
        A = Z3Alg()
        xs = [z3.Real('x%d' % i) for i in range(w.n_in)]
        E = spec(A, xs)
        extra = list(assume(A, xs)) if assume is not None else []
        undefined = [z3.Not(c) for c in it.side]
        if assume_defined:
            extra += list(it.side)
            undefined = []
        if mode == 'ROUND':
            M = mag(A, xs) if mag is not None else A.abs(E)
            u = z3.RealVal('1/%d' % (1 << tm.FPREC[T]))
            bad = z3.Or(r - E > K * u * M, E - r > K * u * M, *undefined)
        else:
            bad = z3.Or(r != E, *undefined)
        cons = list(getattr(it, 'rcons', [])) + it.defs + A.defs + ([x > 0 for x in xs] if positive else []) + extra + [bad]
        o.hash = hashlib.md5((o.oid + str(term.id)).encode()).hexdigest()
        o.syntactic = False
        rp = replay or self.round_replay(w, spec, K if mode == 'ROUND' else 0, mag, out_index, positive)
        return self.decide(o, cons, w, rp, grid=False)

    def round_compositional(self, o, term, spec, w, K, positive, mag, assume, out_index, nops, assume_defined=False):
        """large expressions: solver-checked local error lemmas composed bottom-up (phqv/fea.py), then one
        polynomial inequality  c*u*M + |E_impl - E_spec| <= K*u*M_spec  over the inputs only"""
        from . import fea
        from .algebra import Z3Alg
        T = term.ty
        try:
            an = fea.Analysis(T, positive, timeout_ms=min(self.timeout, 30000))
            nd = an.run(term)
        except (fea.Abort, modes.ModeError) as e:
            o.desc += ' [compositional analysis not applicable: %s]' % e
            wit = getattr(e, 'witness', None)
            if wit is not None and wit[0] > 0:
                # conditioning query: inputs where the operand's magnitude dwarfs its value (cancellation); the
                # model is only a candidate, decided by replay against the real code
                from .algebra import Z3Alg as _A
                c_, M_, E_ = wit
                xs_ = [z3.Real('x%d' % i) for i in range(w.n_in)]
                A_ = _A()
                ex_ = list(assume(A_, xs_)) if assume is not None else []
                big = 1 << (tm.FPREC[T] // 2)
                cons_ = an.real.defs + A_.defs + ([x > 0 for x in xs_] if positive else []) + ex_ + \
                    [E_ > 0, fea.rv(c_) * M_ > big * E_]
                rp_ = self.round_replay(w, spec, K, mag, out_index, positive)
                o.hash = hashlib.md5((o.oid + 'cond').encode()).hexdigest()
                self.decide(o, cons_, w, rp_, grid=False)
                if o.verdict == 'violated':
                    o.desc += ' [found by conditioning query + native replay]'
                    return True
                o.verdict, o.reason = 'inconclusive', ''
            return False
        A = Z3Alg()
        xs = [z3.Real('x%d' % i) for i in range(w.n_in)]
        E = spec(A, xs)
        M = mag(A, xs) if mag is not None else A.abs(E)
        extra = list(assume(A, xs)) if assume is not None else []
        u = fea.rv(an.u)
        diff = nd.E - E
        undefined = [z3.Not(c) for c in an.real.side]
        if assume_defined:
            extra += list(an.real.side)
            undefined = []
        bad = z3.Or(fea.rv(nd.c) * u * nd.M + A.abs(diff) > K * u * M, *undefined)
        cons = an.real.defs + A.defs + ([x > 0 for x in xs] if positive else []) + extra + [bad]
        o.hash = hashlib.md5((o.oid + 'comp' + str(term.id)).encode()).hexdigest()
        o.syntactic = False
        o.desc += ' [compositional: %d rounding operations, %d solver-checked local lemmas, propagated constant c = %.3f]' % (
            nops, an.lemmas_used, float(nd.c))
        rp = self.round_replay(w, spec, K, mag, out_index, positive)
        self.decide(o, cons, w, rp, grid=False)
        self.out.setdefault('lemmas', 0)
        self.out['lemmas'] = len(fea._lemma_cache)
        return True

    def formula_bound(self, o_formula, o_accuracy, term, spec, w, Kf, Kc, signs=None, assume=None, out_index=0, positive=False, lift_ty=None, mag=None, replay=None):
        """two obligations about one output of a closed-form relation, both through the compositional analysis:
          formula : | exact value of the executed expression (its own constants, no rounding) - spec | <= Kf 2^-p M
                    and every division / root of the executed expression is defined, under the assumptions
          accuracy: the propagated rounding constant c satisfies c <= Kc  (|computed - exact| <= c 2^-p M)
        M is the propagated magnitude (sum of the magnitudes of the summands).  Input casts inserted by the harness
        (model parameter of another numeric type) are lifted to exact inputs first."""
        from . import fea
        from .algebra import Z3Alg
        for o in (o_formula, o_accuracy):
            o.key = o.oid
        if term is None:
            o_formula.reason = o_accuracy.reason = 'missing term'
            return
        T = term.ty
        t2 = lift_input_casts(term, lift_ty)
        try:
            an = fea.Analysis(T, positive, timeout_ms=min(self.timeout, 30000), signs=signs)
            nd = an.run(t2)
        except (fea.Abort, modes.ModeError) as e:
            # no error constant: fall back to the exact identity and a conditioning query for the accuracy
            self.round_bound(o_formula, t2, spec, w, 0, positive=positive, mode='REAL', out_index=out_index, assume=assume, replay=replay)
            o_formula.desc += ' [exact identity: %s]' % e
            if 'ill-conditioned' in str(e) and getattr(self, 'accuracy_optional', False):
                # the formula itself divides by (takes the root of) a cancelling difference: no rounding bound exists
                # that is uniform over the admissible inputs; declared, not bounded
                self.out['obs'].remove(o_accuracy)
                self.out['notes'].append('no uniform rounding bound (ill-conditioned by formula): ' + o_accuracy.oid)
                return
            self.round_bound(o_accuracy, t2, spec, w, Kc, positive=positive, mode='ROUND', out_index=out_index, assume=assume)
            return
        A = Z3Alg()
        xs = [z3.Real('x%d' % i) for i in range(w.n_in)]
        E = spec(A, xs)
        extra = list(assume(A, xs)) if assume is not None else []
        u = fea.rv(an.u)
        undefined = [z3.Not(c) for c in an.real.side]
        bad = z3.Or(A.abs(nd.E - E) > Kf * u * nd.M, *undefined)
        o_formula.hash = hashlib.md5((o_formula.oid + 'f' + str(t2.id)).encode()).hexdigest()
        o_formula.mode = 'REAL'
        quant = lift_ty is not None and lift_ty != w.in_ty
        rp = replay or self.round_replay(w, spec, Kf + Kc, mag, out_index, False)
        rp.quantize = quant
        self.decide(o_formula, an.real.defs + A.defs + extra + [bad], w, rp, grid=False)
        o_accuracy.mode = 'ROUND'
        o_accuracy.hash = hashlib.md5((o_accuracy.oid + 'a' + str(t2.id)).encode()).hexdigest()
        o_accuracy.desc += ' [%d solver-checked local lemmas, propagated constant c = %.2f]' % (an.lemmas_used, float(nd.c))
        rp2 = replay or self.round_replay(w, spec, Kf + Kc, mag, out_index, False)
        rp2.quantize = quant
        self.decide(o_accuracy, [fea.rv(nd.c) > Kc], w, rp2, grid=False)

    def round_replay(self, w, spec, K, mag, out_index, positive, wide=False):
        """realisation search for one abstract counterexample: the model point rounded into the type, its
        neighbours and power-of-two rescalings are run through the natively compiled wrapper; the error is measured
        exactly (Fractions) in ulps of the reference magnitude."""
        from .algebra import FracAlg, ulp
        T = w.out_ty
        p, emin = tm.FPREC[T], tm.FEMIN[T]

        def measure(xs):
            o, io = self.unit.call_native(w, xs)
            got = o[out_index]
            fx = [core.np_to_frac(x) for x in xs]
            A = FracAlg()
            E = spec(A, fx)
            M = mag(A, fx) if mag is not None else abs(E)
            if not np.isfinite(got):
                return float('inf'), got, E
            err = abs(core.np_to_frac(got) - E)
            return float(err / ulp(p, emin, M)), got, E

        def rp(xs):
            t = H.NPT[w.in_ty]
            if all(float(v) == 0.0 for v in xs):
                # the solver's query had no input variables (a bound on a propagated constant): seed the search
                xs = [t(0.3) + t(0.41) * t(i % 7) + t(1.0) / t(3 + i) for i in range(len(xs))]
            cands = [list(xs)]
            rng = np.random.default_rng(12345)
            pT = tm.FPREC[w.in_ty]
            for _ in range(48):
                # multi-scale relative perturbations (from one ulp up to 2^-p/2) keep near-cancellations alive
                c = []
                for x in xs:
                    r_ = int(rng.integers(0, pT // 2 + 1))
                    s_ = int(rng.integers(-3, 4))
                    c.append(t(x) * (t(1) + t(s_) * t(2.0) ** t(-(pT - 1 - r_))))
                cands.append(c)
            for sc in (1.0, 3.0, 1e-3, 1e3, 7.0, 1e-6, 1e6) + ((1e-9, 1e9, 1e-2, 1e2, 1e-5, 1e5, 1e-7, 1e7) if (wide and w.in_ty != 'f32') else ((1e-2, 1e2) if wide else ())):
                for _ in range(6):
                    c = [t(x) * t(sc) * t(1.0 + 0.37 * rng.random()) for x in xs]
                    cands.append(c)
            if getattr(rp, 'quantize', False):
                # values representable in every numeric type, so that casts inserted by the harness are exact
                cands = [[t(np.float32(v)) for v in c] for c in cands]
            worst = (-1.0, None, None, None)
            for c in cands:
                if positive and any(not (v > 0) for v in c):
                    continue
                try:
                    e, got, E = measure(c)
                except (ValueError, ZeroDivisionError, OverflowError):
                    continue
                if wide and (not np.isfinite(got) or got == 0):
                    continue      # default-seed search: overflow / underflow is outside every claim
                if e > worst[0]:
                    worst = (e, c, got, E)
                if e > max(K, 0.5) * 1.0 and e != float('inf'):
                    break
            e, c, got, E = worst
            if c is None:
                return False, 'no admissible realisation'
            rp.case['expected_note'] = 'error %.3g ulps (allowed %s)' % (e, K)
            rp.case['inputs_override'] = [core.hexf(v) for v in c]
            A_ = FracAlg()
            fx_ = [core.np_to_frac(v) for v in c]
            M_ = mag(A_, fx_) if mag is not None else abs(E)
            rp.case.update({'exact': '%d/%d' % (E.numerator, E.denominator), 'magnitude': '%d/%d' % (M_.numerator, M_.denominator),
                            'K': K, 'out_index': out_index})
            try:
                Ef = '%.17g' % float(E)
            except OverflowError:
                Ef = '%d/%d' % (E.numerator, E.denominator) if E.denominator < 10 ** 6 and abs(E.numerator) < 10 ** 40 else 'about 2^%d' % (abs(E.numerator).bit_length() - E.denominator.bit_length())
            txt = 'inputs=%s impl=%s exact=%s error=%.4g ulps (allowed %s)' % ([core.hexf(v) for v in c], core.hexf(got) if np.isfinite(got) else repr(got),
                                                                             Ef, e, K)
            return (e > K if K else e > 0), txt
        rp.case = {'kind': 'ulp', 'impl': w.name}
        return rp

    def save_case(self, o, xs, case, ks=()):
        prop = self.spec.payload.get('prop', 'CXX') if isinstance(self.spec.payload, dict) else 'CXX'
        names = [case.get('impl'), case.get('ref')]
        ws = [self.byname[n] for n in names if n]
        c = dict(case)
        c.update({'property': prop, 'obligation': o.oid, 'statement': o.desc, 'includes': list(self.spec.includes),
                  'extra_src': self.spec.extra_src,
                  'wrappers': [{'name': w.name, 'in_ty': w.in_ty, 'n_in': w.n_in, 'out_ty': w.out_ty, 'n_out': w.n_out,
                                'n_iout': w.n_iout, 'n_iin': w.n_iin, 'body': w.body} for w in ws],
                  'inputs': c.get('inputs_override') or [core.hexf(x) for x in xs], 'iinputs': list(ks), 'observed': o.reason})
        return core.write_replay(prop, o.oid, c)

    def native_pair_replay(self, w_impl, w_ref, ulps=0):
        """replay closure: run both wrappers natively, compare all outputs bit for bit (or within `ulps`)"""
        def rp(xs, ks=()):
            o1, i1 = self.unit.call_native(w_impl, xs, ks)
            o2, i2 = self.unit.call_native(w_ref, xs, ks)
            bad = [i for i in range(len(o1)) if not close_float(o1[i], o2[i], ulps, w_impl.out_ty)]
            badi = [i for i in range(len(i1)) if i1[i] != i2[i]]
            return (bool(bad or badi),
                    'inputs=%s impl=%s ref=%s' % ([core.hexf(x) for x in xs], [core.hexf(x) for x in o1] + list(i1),
                                                  [core.hexf(x) for x in o2] + list(i2)))
        rp.case = {'kind': 'pair', 'impl': w_impl.name, 'ref': w_ref.name}
        return rp

    def native_term_replay(self, w_impl, ref_terms, ref_iterms=(), ulps=0):
        """replay closure: run the wrapper natively and compare with NUM evaluation of specification terms"""
        def rp(xs, ks=()):
            o1, i1 = self.unit.call_native(w_impl, xs, ks)
            env = {'x%d' % i: x for i, x in enumerate(xs)}
            env.update({'k%d' % i: k for i, k in enumerate(ks)})
            ev = modes.Num(env)
            exp = [H.NPT[w_impl.out_ty](ev.ev(t)) for t in ref_terms]
            bad = [i for i in range(len(exp)) if not close_float(o1[i], exp[i], ulps, w_impl.out_ty)]
            expi = [int(ev.ev(t)) for t in ref_iterms]
            badi = [i for i in range(len(expi)) if (i1[i] & 0xFFFFFFFFFFFFFFFF) != (expi[i] & 0xFFFFFFFFFFFFFFFF)]
            rp.case['expected_out'] = [core.hexf(x) for x in exp]
            rp.case['expected_iout'] = expi
            return (bool(bad or badi),
                    'inputs=%s impl=%s spec=%s' % ([core.hexf(x) for x in xs], [core.hexf(x) for x in o1] + list(i1),
                                                   [core.hexf(x) for x in exp] + expi))
        rp.case = {'kind': 'values', 'impl': w_impl.name}
        return rp


def lift_input_casts(t, only_ty=None):
    """fpext/fptrunc applied directly to an input are harness artefacts (a model parameter held in another numeric
    type): replace them by exact inputs of the cast's type"""
    m = {}
    for x in tm.walk(t):
        if x.op in ('fpext', 'fptrunc') and x.args[0].op == 'arg' and (only_ty is None or x.ty == only_ty):
            m[x.id] = tm.arg(x.ty, x.args[0].args[0])
    return tm.replace_nodes(t, m) if m else t


def guarded(ctx, ident, fn):
    """run one obligation group; an internal error makes it inconclusive instead of killing the unit"""
    core.WATCH['group'] = str(ident)
    if str(ident) in getattr(ctx, 'skip', ()):
        o = ctx.ob(str(ident) + ' [solver]', 'solver-hang', '-', 'obligation group %s' % ident)
        o.verdict = 'inconclusive'
        o.reason = 'solver did not return within the hard limit (6 x timeout + 45 s); the worker was killed and the unit re-run without this group'
        return
    try:
        fn()
    except Exception as e:
        o = ctx.ob(str(ident) + ' [internal]', 'internal-error', '-', 'obligation group %s' % ident)
        o.verdict = 'inconclusive'
        o.reason = 'internal error: %s: %s' % (type(e).__name__, str(e)[:200])
        ctx.out['notes'].append(traceback.format_exc()[-1200:])


def close_float(a, b, ulps, ty):
    """bit-identical, or (ulps > 0) finite and within that many units in the last place of the larger magnitude"""
    if same_float(a, b):
        return True
    if not ulps:
        return False
    a_, b_ = np.longdouble(a), np.longdouble(b)
    if not (np.isfinite(a_) and np.isfinite(b_)):
        return False
    from .algebra import ulp
    fa, fb = core.np_to_frac(a_), core.np_to_frac(b_)
    return abs(fa - fb) <= ulps * ulp(tm.FPREC[ty], tm.FEMIN[ty], max(abs(fa), abs(fb)))


def same_float(a, b):
    a = np.longdouble(a)
    b = np.longdouble(b)
    if np.isnan(a) or np.isnan(b):
        return bool(np.isnan(a) and np.isnan(b))
    return bool(a == b and np.signbit(a) == np.signbit(b))


def collect(report, results):
    """fold worker outputs into a Report"""
    for r in results:
        if r['error']:
            o = Ob('unit:' + r['name'], 'unit', '-', 'translation unit ' + r['name'])
            o.verdict = 'inconclusive'
            o.reason = r['error'][:400]
            report.add(o)
            report.notes.append('unit %s failed: %s' % (r['name'], r['error'][:1500]))
        for d in r['obs']:
            report.add(Ob.from_dict(d))
        report.functions.update(r['functions'])
        report.stubs.update(r['stubs'])
        report.paths += r['paths']
        report.validated += r['validated']
        report.validation_mismatch.extend(r['mismatch'])
        report.notes.extend(r['notes'][:5])
    report.extra['unit_times'] = {r['name']: {k: round(v, 2) for k, v in r['times'].items()} for r in results[:40]}
