"""O-unit: an independent unit-symbol expander (shares no constant with phq).

parse(symbol) -> UnitVal(mag, pi, dims, offset) meaning   SI value = (x + pre_offset...)   precisely:
      SI = mag * pi^pi_exp * x + offset          (offset only for the bare symbols degC / degF)
dims = exponents of (T, L, M, I, Theta, N, J).

Atoms take their defining values from the 2019 SI / NIST SP 811: international foot and mile, nautical mile 1852 m,
avoirdupois pound 0.45359237 kg, standard gravity 9.80665 m/s^2, thermochemical calorie 4.184 J,
BTU_IT = 1055.05585262 J, atm = 101325 Pa, eV = 1.602176634e-19 J, N_A = 6.02214076e23.
"""
import re
from fractions import Fraction as F

DIM = {'T': 0, 'L': 1, 'M': 2, 'I': 3, 'Th': 4, 'N': 5, 'J': 6}


def dims(**kw):
    d = [0] * 7
    for k, v in kw.items():
        d[DIM[k]] = v
    return tuple(d)


class UnitVal:
    __slots__ = ('mag', 'pi', 'dims', 'offset')

    def __init__(self, mag, dims_=(0,) * 7, pi=0, offset=F(0)):
        self.mag, self.dims, self.pi, self.offset = F(mag), tuple(dims_), pi, F(offset)

    def __mul__(self, o):
        return UnitVal(self.mag * o.mag, tuple(a + b for a, b in zip(self.dims, o.dims)), self.pi + o.pi)

    def __truediv__(self, o):
        return UnitVal(self.mag / o.mag, tuple(a - b for a, b in zip(self.dims, o.dims)), self.pi - o.pi)

    def __pow__(self, n):
        return UnitVal(self.mag ** n, tuple(a * n for a in self.dims), self.pi * n)

    def __repr__(self):
        return 'UnitVal(%s * pi^%d, %s, +%s)' % (self.mag, self.pi, self.dims, self.offset)

    def same(self, o):
        return self.mag == o.mag and self.pi == o.pi and self.dims == o.dims and self.offset == o.offset


class UnknownUnit(Exception):
    pass


G0 = F('9.80665')
LB = F('0.45359237')
FT = F('0.3048')
IN = F('0.0254')
LBF = LB * G0
E_CHARGE = F('1.602176634e-19')
N_A = F('6.02214076e23')

L_ = dims(L=1)
T_ = dims(T=1)
M_ = dims(M=1)
FORCE = dims(M=1, L=1, T=-2)
ENERGY = dims(M=1, L=2, T=-2)
POWER = dims(M=1, L=2, T=-3)
PRESSURE = dims(M=1, L=-1, T=-2)

BASE = {
    # prefixable SI atoms
    'm': UnitVal(1, L_), 's': UnitVal(1, T_), 'g': UnitVal(F(1, 1000), M_), 'A': UnitVal(1, dims(I=1)),
    'K': UnitVal(1, dims(Th=1)), 'mol': UnitVal(1, dims(N=1)), 'cd': UnitVal(1, dims(J=1)),
    'N': UnitVal(1, FORCE), 'J': UnitVal(1, ENERGY), 'W': UnitVal(1, POWER), 'Pa': UnitVal(1, PRESSURE),
    'C': UnitVal(1, dims(I=1, T=1)), 'Hz': UnitVal(1, dims(T=-1)), 'L': UnitVal(F(1, 1000), dims(L=3)),
    'l': UnitVal(F(1, 1000), dims(L=3)),
    'eV': UnitVal(E_CHARGE, ENERGY), 'cal': UnitVal(F('4.184'), ENERGY), 'P': UnitVal(F(1, 10), dims(M=1, L=-1, T=-1)),
    'bar': UnitVal(100000, PRESSURE), 'V': UnitVal(1, dims(M=1, L=2, T=-3, I=-1)),
}
PREFIX = {'k': F(10) ** 3, 'M': F(10) ** 6, 'G': F(10) ** 9, 'T': F(10) ** 12, 'P': F(10) ** 15, 'd': F(1, 10), 'c': F(1, 100),
          'm': F(1, 1000), 'μ': F(1, 10 ** 6), 'u': F(1, 10 ** 6), 'µ': F(1, 10 ** 6), 'n': F(1, 10 ** 9), 'p': F(1, 10 ** 12),
          'h': F(100), 'da': F(10)}
PREFIXABLE_ALL = {'m', 'g', 'A', 'N', 'J', 'W', 'Pa', 'C', 'Hz', 'eV', 'cal', 'mol', 's', 'L', 'l', 'K', 'V'}

FIXED = {
    'ft': UnitVal(FT, L_), 'in': UnitVal(IN, L_), 'yd': UnitVal(3 * FT, L_), 'mi': UnitVal(5280 * FT, L_),
    'nmi': UnitVal(1852, L_), 'mil': UnitVal(IN / 1000, L_), 'thou': UnitVal(IN / 1000, L_), 'milin': UnitVal(IN / 1000, L_),
    'milliinch': UnitVal(IN / 1000, L_), 'μin': UnitVal(IN / 10 ** 6, L_), 'uin': UnitVal(IN / 10 ** 6, L_),
    'microinch': UnitVal(IN / 10 ** 6, L_),
    'min': UnitVal(60, T_), 'hr': UnitVal(3600, T_), 'h': UnitVal(3600, T_), 'day': UnitVal(86400, T_), 'd': UnitVal(86400, T_),
    'lbm': UnitVal(LB, M_), 'lb': UnitVal(LB, M_), 'slug': UnitVal(LBF / FT, M_), 'slinch': UnitVal(LBF / IN, M_),
    'lbf': UnitVal(LBF, FORCE), 'dyn': UnitVal(F(1, 100000), FORCE),
    'BTU': UnitVal(F('1055.05585262'), ENERGY), 'Btu': UnitVal(F('1055.05585262'), ENERGY),
    'atm': UnitVal(101325, PRESSURE), 'psi': UnitVal(LBF / IN ** 2, PRESSURE), 'psf': UnitVal(LBF / FT ** 2, PRESSURE),
    'e': UnitVal(E_CHARGE, dims(I=1, T=1)),
    'kn': UnitVal(F(1852, 3600), dims(L=1, T=-1)), 'knot': UnitVal(F(1852, 3600), dims(L=1, T=-1)),
    'ha': UnitVal(10000, dims(L=2)), 'ac': UnitVal(43560 * FT ** 2, dims(L=2)), 'acre': UnitVal(43560 * FT ** 2, dims(L=2)),
    'rad': UnitVal(1), 'sr': UnitVal(1), 'deg': UnitVal(F(1, 180), pi=1), 'arcmin': UnitVal(F(1, 10800), pi=1),
    'arcsec': UnitVal(F(1, 648000), pi=1), 'rev': UnitVal(2, pi=1), '°': UnitVal(F(1, 180), pi=1),
    "'": UnitVal(F(1, 10800), pi=1), '"': UnitVal(F(1, 648000), pi=1),
    '°R': UnitVal(F(5, 9), dims(Th=1)), 'R': UnitVal(F(5, 9), dims(Th=1)), '°C': UnitVal(1, dims(Th=1)), '°F': UnitVal(F(5, 9), dims(Th=1)),
    'degC': UnitVal(1, dims(Th=1)), 'degF': UnitVal(F(5, 9), dims(Th=1)), 'degR': UnitVal(F(5, 9), dims(Th=1)), '°K': UnitVal(1, dims(Th=1)),
    'F': UnitVal(F(5, 9), dims(Th=1)), 'degK': UnitVal(1, dims(Th=1)), 'NM': UnitVal(1852, L_), 'micron': UnitVal(F(1, 10 ** 6), L_),
    'microns': UnitVal(F(1, 10 ** 6), L_), 'thousandth': UnitVal(IN / 1000, L_), 'thousandths': UnitVal(IN / 1000, L_),
    'millinch': UnitVal(IN / 1000, L_), 'btu': UnitVal(F('1055.05585262'), ENERGY), 'arcs': UnitVal(F(1, 648000), pi=1),
    'as': UnitVal(F(1, 648000), pi=1), 'am': UnitVal(F(1, 10800), pi=1),
    'particles': UnitVal(1 / N_A, dims(N=1)), 'particle': UnitVal(1 / N_A, dims(N=1)),
    'b': UnitVal(1), 'bit': UnitVal(1), 'B': UnitVal(8), 'byte': UnitVal(8),
    'P': UnitVal(F(1, 10), dims(M=1, L=-1, T=-1)),
    'kg': UnitVal(1, M_),
}
for _p, _v in (('k', 10 ** 3), ('M', 10 ** 6), ('G', 10 ** 9), ('T', 10 ** 12), ('P', 10 ** 15)):
    FIXED[_p + 'b'] = UnitVal(_v)
    FIXED[_p + 'B'] = UnitVal(8 * _v)
for _i, _p in enumerate(('ki', 'Mi', 'Gi', 'Ti', 'Pi')):
    FIXED[_p + 'b'] = UnitVal(1024 ** (_i + 1))
    FIXED[_p + 'B'] = UnitVal(8 * 1024 ** (_i + 1))
AFFINE = {'°C': F('273.15'), 'degC': F('273.15'), '°F': F('459.67') * F(5, 9), 'degF': F('459.67') * F(5, 9)}

WORDS = {
    # spelled-out names (singular); plurals handled by stripping 's' / 'es'
    'metre': 'm', 'meter': 'm', 'second': 's', 'gram': 'g', 'gramme': 'g', 'ampere': 'A', 'amp': 'A', 'kelvin': 'K', 'mole': 'mol',
    'candela': 'cd', 'newton': 'N', 'joule': 'J', 'watt': 'W', 'pascal': 'Pa', 'coulomb': 'C', 'hertz': 'Hz', 'litre': 'L',
    'liter': 'L', 'electronvolt': 'eV', 'calorie': 'cal', 'poise': 'P', 'volt': 'V',
    'foot': 'ft', 'feet': 'ft', 'inch': 'in', 'inches': 'in', 'yard': 'yd', 'mile': 'mi', 'minute': 'min', 'hour': 'hr', 'pound': 'lbf',
    'radian': 'rad', 'degree': 'deg', 'arcminute': 'arcmin', 'arcsecond': 'arcsec', 'revolution': 'rev', 'steradian': 'sr',
    'rankine': '°R', 'celsius': '°C', 'fahrenheit': '°F', 'dyne': 'dyn', 'hectare': 'ha', 'atmosphere': 'atm',
    'kilogram': 'kg',
}

TOKEN = re.compile(r'\s*(\(|\)|\^|·|\*|/|×|-?\d+|[^\s()^·*/×\d-][^\s()^·*/×]*)')


AMBIGUOUS = {'C': ('°C',), 'lb': ('lbf',), 'lbs': ('lbf', 'lbm')}
_alt = {}


def atom(tok):
    if tok in _alt:
        return atom(_alt[tok])
    if tok in FIXED:
        return FIXED[tok]
    if tok in BASE:
        return BASE[tok]
    # prefix + base
    for pl in (2, 1):
        p, b = tok[:pl], tok[pl:]
        if p in PREFIX and b in BASE and b in PREFIXABLE_ALL:
            v = BASE[b]
            return UnitVal(v.mag * PREFIX[p], v.dims, v.pi)
    # trailing exponent glued to the atom: m2, s3, ft2
    m = re.match(r'^(.*?[^\d-])(-?\d+)$', tok)
    if m:
        return atom(m.group(1)) ** int(m.group(2))
    raise UnknownUnit(tok)


class Parser:
    def __init__(self, s):
        self.toks = TOKEN.findall(s)
        if ''.join(self.toks).replace(' ', '') != re.sub(r'\s+', '', s):
            raise UnknownUnit('cannot tokenise %r' % s)
        self.i = 0

    def peek(self):
        return self.toks[self.i] if self.i < len(self.toks) else None

    def next(self):
        t = self.toks[self.i]
        self.i += 1
        return t

    def expr(self):
        if self.peek() == '/':
            v = UnitVal(1)
        else:
            v = self.term()
        while True:
            t = self.peek()
            if t in ('·', '*', '×'):
                self.next()
                v = v * self.term()
            elif t == '/':
                self.next()
                v = v / self.term()
            elif t is not None and t not in (')', '^'):
                v = v * self.term()          # juxtaposition
            else:
                return v

    def term(self):
        t = self.next()
        if t == '(':
            v = self.expr()
            if self.next() != ')':
                raise UnknownUnit('unbalanced parenthesis')
        elif t in (')', '^', '/', '·', '*', '×'):
            raise UnknownUnit('unexpected %r' % t)
        elif re.fullmatch(r'-?\d+', t):
            v = UnitVal(int(t))
        else:
            v = atom(t)
        if self.peek() == '^':
            self.next()
            e = self.next()
            if e == '(':
                e = self.next()
                if self.next() != ')':
                    raise UnknownUnit('bad exponent')
            v = v ** int(e)
        return v


def parse(symbol):
    s = symbol.strip()
    if s in AFFINE or _alt.get(s) in AFFINE or s in ('F', 'degC', 'degF', 'celsius', 'fahrenheit'):
        k = _alt.get(s, s)
        k = {'F': '°F', 'celsius': '°C', 'fahrenheit': '°F'}.get(k, k)
        if k in AFFINE:
            v = atom(k)
            return UnitVal(v.mag, v.dims, v.pi, AFFINE[k])
    p = Parser(s)
    v = p.expr()
    if p.peek() is not None:
        raise UnknownUnit('trailing input in %r' % symbol)
    return v


def parse_spelling(text, expect_dims=None):
    """spelled-out or abbreviated unit -> UnitVal.  A few ASCII atoms are ambiguous (C = coulomb or degree Celsius,
    lb = pound mass or pound force): when the expected dimension set is given, the reading that matches it is taken"""
    import itertools
    v = _parse_spelling(text)
    if expect_dims is None or tuple(v.dims) == tuple(expect_dims):
        return v
    keys = [k for k in AMBIGUOUS if re.search(r'(?<![A-Za-zμ°])%s(?![A-Za-z])' % re.escape(k), text)]
    for combo in itertools.product(*[(None,) + AMBIGUOUS[k] for k in keys]):
        _alt.clear()
        for k, c in zip(keys, combo):
            if c:
                _alt[k] = c
        try:
            w = _parse_spelling(text)
        except (UnknownUnit, ZeroDivisionError, ValueError):
            continue
        finally:
            _alt.clear()
        if tuple(w.dims) == tuple(expect_dims):
            return w
    return v


def _parse_spelling(text):
    try:
        return parse(text)
    except (UnknownUnit, ZeroDivisionError, ValueError):
        pass
    t = text.strip()
    low = t.lower()
    # phrases: "X per Y", "square X", "cubic X", "X squared", "X cubed", words joined by space or hyphen
    if ' per ' in low:
        a, b = low.split(' per ', 1)
        return _parse_spelling(a) / _parse_spelling(b)
    for w, e in (('square ', 2), ('cubic ', 3)):
        if low.startswith(w):
            return _parse_spelling(low[len(w):]) ** e
    for w, e in ((' squared', 2), (' cubed', 3)):
        if low.endswith(w):
            return _parse_spelling(low[:-len(w)]) ** e
    if low in ('nautical mile', 'nautical miles'):
        return FIXED['nmi']
    if t == 'Cal':
        return UnitVal(4184, ENERGY)       # the large (food) calorie
    for sep in (' ', '-'):
        if sep in low:
            parts = [p for p in low.split(sep) if p]
            v = _parse_spelling(parts[0])
            for p in parts[1:]:
                v = v * _parse_spelling(p)
            return v
    return word(low)


SI_WORD_PREFIX = {'kilo': 'k', 'mega': 'M', 'giga': 'G', 'tera': 'T', 'peta': 'P', 'deci': 'd', 'centi': 'c', 'milli': 'm', 'micro': 'μ',
                  'nano': 'n', 'kibi': 'ki', 'mebi': 'Mi', 'gibi': 'Gi', 'tebi': 'Ti', 'pebi': 'Pi'}


def word(w):
    m = re.match(r'^(.*?[a-z])\^?(\d+)$', w)
    if m:
        return word(m.group(1)) ** int(m.group(2))
    if w in ('nautical mile', 'nautical miles'):
        return FIXED['nmi']
    for cand in (w, w[:-1] if w.endswith('s') else None, w[:-2] if w.endswith('es') else None):
        if not cand:
            continue
        if cand in WORDS:
            return atom(WORDS[cand])
        if cand in FIXED:
            return FIXED[cand]
        for pw, ps in SI_WORD_PREFIX.items():
            if cand.startswith(pw):
                rest = cand[len(pw):]
                if rest in ('bit', 'byte'):
                    return atom(ps + ('b' if rest == 'bit' else 'B'))
                if rest in WORDS and ps in PREFIX:
                    b = atom(WORDS[rest])
                    return UnitVal(b.mag * PREFIX[ps], b.dims, b.pi)
    raise UnknownUnit(w)
