"""O-tensor: index-notation definitions of three-dimensional Cartesian tensor algebra, expanded mechanically.
Everything works over any number type supporting + - * / (z3 reals, Fractions, Mag)."""

IDX = {'PlanarVector': 2, 'Vector': 3, 'SymmetricDyad': 6, 'Dyad': 9}
SYM = [(0, 0), (0, 1), (0, 2), (1, 1), (1, 2), (2, 2)]


class Mag:
    """magnitude algebra: the same expression with every term taken in absolute value (a - b -> |a| + |b|)"""
    __slots__ = ('v',)

    def __init__(self, v):
        self.v = v

    def _o(self, o):
        return o.v if isinstance(o, Mag) else abs(o)

    def __add__(self, o): return Mag(self.v + self._o(o))
    __radd__ = __add__
    __sub__ = __add__
    __rsub__ = __add__

    def __mul__(self, o): return Mag(self.v * self._o(o))
    __rmul__ = __mul__

    def __neg__(self): return self


def vec(shape, c, zero):
    if shape == 'PlanarVector':
        return [c[0], c[1], zero]
    return list(c[:3])


def mat(shape, c):
    if shape == 'SymmetricDyad':
        m = [[None] * 3 for _ in range(3)]
        for k, (i, j) in enumerate(SYM):
            m[i][j] = c[k]
            m[j][i] = c[k]
        return m
    return [[c[3 * i + j] for j in range(3)] for i in range(3)]


def flat(shape, m):
    if shape == 'SymmetricDyad':
        return [m[i][j] for i, j in SYM]
    return [m[i][j] for i in range(3) for j in range(3)]


def dot(a, b):
    return a[0] * b[0] + a[1] * b[1] + a[2] * b[2]


def cross(a, b):
    return [a[1] * b[2] - a[2] * b[1], a[2] * b[0] - a[0] * b[2], a[0] * b[1] - a[1] * b[0]]


def dyadic(a, b):
    return [[a[i] * b[j] for j in range(3)] for i in range(3)]


def trace(m):
    return m[0][0] + m[1][1] + m[2][2]


def det(m):
    # Leibniz / first-row expansion
    return (m[0][0] * (m[1][1] * m[2][2] - m[1][2] * m[2][1])
            - m[0][1] * (m[1][0] * m[2][2] - m[1][2] * m[2][0])
            + m[0][2] * (m[1][0] * m[2][1] - m[1][1] * m[2][0]))


def transpose(m):
    return [[m[j][i] for j in range(3)] for i in range(3)]


def cofactors(m):
    def minor(i, j):
        r = [k for k in range(3) if k != i]
        c = [k for k in range(3) if k != j]
        return m[r[0]][c[0]] * m[r[1]][c[1]] - m[r[0]][c[1]] * m[r[1]][c[0]]
    return [[minor(i, j) if (i + j) % 2 == 0 else -minor(i, j) for j in range(3)] for i in range(3)]


def adjugate(m):
    return transpose(cofactors(m))


def matmul(a, b):
    return [[a[i][0] * b[0][j] + a[i][1] * b[1][j] + a[i][2] * b[2][j] for j in range(3)] for i in range(3)]


def matvec(a, v):
    return [a[i][0] * v[0] + a[i][1] * v[1] + a[i][2] * v[2] for i in range(3)]
