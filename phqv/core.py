"""Obligations, solver calls, evidence, known findings, replay cases."""
import os, sys, json, time, re, hashlib, traceback
from fractions import Fraction
import z3
import numpy as np
from . import terms as tm, modes

VERIF = os.path.dirname(os.path.dirname(os.path.abspath(__file__)))
EVID = os.environ.get('PHQV_EVIDENCE_DIR') or os.path.join(VERIF, 'evidence')   # the override is for runs against seeded changes only
REPLAYS = os.path.join(VERIF, 'replays')
KNOWN = os.path.join(VERIF, 'known_findings.txt')


def tier():
    return os.environ.get('VERIF_TIER', 'quick')


def seed():
    try:
        return int(os.environ.get('VERIF_SEED', '0'))
    except ValueError:
        return 0


class Ob:
    """one proof obligation and its verdict"""
    __slots__ = ('oid', 'cls', 'mode', 'desc', 'verdict', 'reason', 'secs', 'syntactic', 'smt', 'model', 'key',
                 'replay', 'funcs', 'hash')

    def __init__(self, oid, cls, mode, desc):
        self.oid, self.cls, self.mode, self.desc = oid, cls, mode, desc
        self.verdict = 'inconclusive'
        self.reason = ''
        self.secs = 0.0
        self.syntactic = False
        self.smt = None
        self.model = None
        self.key = None
        self.replay = None
        self.funcs = ()
        self.hash = None

    def to_dict(self):
        return {k: getattr(self, k) for k in self.__slots__}

    @staticmethod
    def from_dict(d):
        o = Ob(d['oid'], d['cls'], d['mode'], d['desc'])
        for k in Ob.__slots__:
            setattr(o, k, d.get(k))
        return o


# Hard watchdog.  z3's own timeout is cooperative and some arithmetic inner loops (nla::core::patch_monomial on huge
# integers) do not poll it: a query can then run for tens of minutes.  A daemon thread in each worker process notices a
# query that has overrun 6 x its timeout + 45 s, records the obligation group that posed it in <unit>.skip and kills the
# process; the driver re-runs the unit, which reports that group as inconclusive ("solver did not return").
DUMPED = [0]
BUDGET = {'spent': 0.0, 'limit': None}
WATCH = {'since': None, 'limit': None, 'group': None, 'skipfile': None, 'thread': None}


def start_watchdog(skipfile):
    import threading
    WATCH['skipfile'] = skipfile
    WATCH['since'] = None
    if WATCH['thread'] is not None and WATCH['thread'].is_alive() and WATCH.get('pid') == os.getpid():
        return

    def run():
        while True:
            time.sleep(5.0)
            t = WATCH['since']
            if t is not None and WATCH['limit'] is not None and time.time() - t > WATCH['limit']:
                try:
                    with open(WATCH['skipfile'], 'a') as f:
                        f.write(str(WATCH['group']) + '\n')
                finally:
                    os._exit(77)
    th = threading.Thread(target=run, daemon=True)
    th.start()
    WATCH['thread'] = th
    WATCH['pid'] = os.getpid()


def solve(constraints, timeout_ms=10000, want_smt=False, logic=None, tactic=None):
    """returns (verdict, model or None, seconds, smt2 text or None)"""
    if tactic:
        s = z3.Tactic(tactic).solver()
    elif logic:
        s = z3.SolverFor(logic)
    else:
        s = z3.Solver()
    s.set('timeout', timeout_ms)
    for c in constraints:
        s.add(c)
    smt = None
    if want_smt:
        smt = s.to_smt2()
        if len(smt) > 6000:
            smt = smt[:6000] + '\n; ... truncated'
    if BUDGET['limit'] is not None and BUDGET['spent'] > BUDGET['limit']:
        # hard solver budget of this translation unit (guards against a change that makes thousands of obligations
        # non-trivial at once): the remaining queries are not posed and their obligations stay inconclusive
        return 'not posed (solver budget of %d s for this unit exhausted)' % BUDGET['limit'], None, 0.0, None
    dump = os.environ.get('PHQV_DUMP_SMT')
    dump_path = None
    if dump:
        # cross-solver validation aid (tools/cross_solver.py): write a sample of the queries with z3's verdict
        DUMPED[0] += 1
        if DUMPED[0] % int(os.environ.get('PHQV_DUMP_EVERY', '25')) == 1:
            os.makedirs(dump, exist_ok=True)
            dump_path = os.path.join(dump, '%d_%d.smt2' % (os.getpid(), DUMPED[0]))
            with open(dump_path, 'w') as f:
                f.write(s.to_smt2())
    t0 = time.time()
    WATCH['since'] = t0
    WATCH['limit'] = 6.0 * timeout_ms / 1000.0 + 45.0
    try:
        r = s.check()
    except z3.Z3Exception as e:
        WATCH['since'] = None
        return 'error:' + str(e)[:100], None, time.time() - t0, smt
    WATCH['since'] = None
    dt = time.time() - t0
    BUDGET['spent'] += dt
    if dump_path:
        with open(dump_path, 'a') as f:
            f.write('\n; z3-%s verdict: %s (%.2f s)\n' % (z3.get_version_string(), r, dt))
    if r == z3.unsat:
        return 'unsat', None, dt, smt
    if r == z3.sat:
        return 'sat', s.model(), dt, smt
    return 'unknown', None, dt, smt


def model_inputs(model, names, ty):
    """extract input values from a z3 model as numpy scalars (BIT: FP values; REAL/ROUND: rationals rounded)"""
    out = []
    for n in names:
        v = None
        for d in model.decls():
            if d.name() == n:
                v = model[d]
                break
        if v is None:
            out.append(modes.NPT[ty](0))
            continue
        out.append(z3_to_np(v, ty))
    return out


def model_ints(model, names):
    out = []
    for n in names:
        v = None
        for d in model.decls():
            if d.name() == n:
                v = model[d]
                break
        out.append(v.as_signed_long() if v is not None and z3.is_bv_value(v) else 0)
    return out


def z3_to_np(v, ty):
    t = modes.NPT[ty]
    if z3.is_fp(v):
        if z3.is_fprm(v):
            return t(0)
        if v.isNaN():
            return t(np.nan)
        if v.isInf():
            return t(-np.inf if v.isNegative() else np.inf)
        if v.isZero():
            return t(-0.0 if v.isNegative() else 0.0)
        sig = Fraction(v.significand_as_long(), 1 << (v.sbits() - 1))
        ex = v.exponent_as_long(False)
        if v.isSubnormal():
            pass
        else:
            sig = sig + 1
        fr = sig * Fraction(2) ** ex
        if v.isNegative():
            fr = -fr
        return modes.frac_to_np(ty, fr)
    if z3.is_rational_value(v):
        return frac_round(Fraction(v.numerator_as_long(), v.denominator_as_long()), ty)
    if z3.is_algebraic_value(v):
        a = v.approx(40)
        return frac_round(Fraction(a.numerator_as_long(), a.denominator_as_long()), ty)
    return t(0)


def rnd_frac(fr, ty):
    """round a rational to the nearest value of the type (RNE, exact integer arithmetic); returns a Fraction,
    or 'inf' / '-inf' on overflow"""
    if fr == 0:
        return Fraction(0)
    p = tm.FPREC[ty]
    neg = fr < 0
    a = abs(fr)
    e = a.numerator.bit_length() - a.denominator.bit_length()
    if Fraction(2) ** e > a:
        e -= 1
    e = max(e, tm.FEMIN[ty])
    q = a / Fraction(2) ** (e - p + 1)
    n = q.numerator // q.denominator
    rem = q - n
    if rem > Fraction(1, 2) or (rem == Fraction(1, 2) and n % 2 == 1):
        n += 1
    r = Fraction(n) * Fraction(2) ** (e - p + 1)
    if r >= Fraction(2) ** (tm.FEMAX[ty] + 1):
        return '-inf' if neg else 'inf'
    return -r if neg else r


def frac_round(fr, ty):
    return modes.frac_to_np(ty, rnd_frac(fr, ty))


def np_to_frac(v):
    """exact rational value of a finite numpy float scalar"""
    v = np.longdouble(v)
    if not np.isfinite(v):
        raise ValueError('non-finite')
    if v == 0:
        return Fraction(0)
    m, e = np.frexp(v)
    # m in [0.5,1): scale to 64-bit integer exactly
    mi = np.ldexp(m, 64)
    hi = int(np.floor(np.ldexp(mi, -32)))
    lo = int(mi - np.ldexp(np.longdouble(hi), 32))
    return Fraction(hi * (1 << 32) + lo) * Fraction(2) ** (int(e) - 64)


def hexf(v):
    """portable exact text for a numpy float:  <integer>p<exponent>  meaning integer * 2^exponent"""
    try:
        fr = np_to_frac(v)
    except ValueError:
        return repr(float(v))
    if fr == 0:
        return '-0' if np.signbit(v) else '0'
    n, d = fr.numerator, fr.denominator
    e = -(d.bit_length() - 1)
    while n % 2 == 0:
        n //= 2
        e += 1
    return '%dp%d' % (n, e)


def parse_hexf(s, ty):
    if s == '-0':
        return modes.NPT[ty](-0.0)
    if 'p' in s:
        n, e = s.split('p')
        return modes.frac_to_np(ty, Fraction(int(n)) * Fraction(2) ** int(e))
    if '/' in s:
        n, d = s.split('/')
        return modes.frac_to_np(ty, Fraction(int(n), int(d)))
    return modes.NPT[ty](float(s))


# ------------------------------------------------------------------------------------ known findings
class Known:
    def __init__(self):
        self.findings = []  # (prop, key, text)
        self.fixed = []
        if os.path.exists(KNOWN):
            for l in open(KNOWN):
                l = l.strip()
                if not l or l.startswith('#'):
                    continue
                m = re.match(r'^finding:\s*property=(\w+)\s+key=(\S+)\s*(.*)$', l)
                if m:
                    self.findings.append((m.group(1), m.group(2), m.group(3)))
                    continue
                m = re.match(r'^fixed:\s*property=(\w+)\s+(\S+)\s*(.*)$', l)
                if m:
                    self.fixed.append((m.group(1), m.group(2), m.group(3)))

    def match(self, prop, key):
        for p, k, t in self.findings:
            if p == prop and key is not None and re.fullmatch(k, key):
                return (p, k, t)
        return None


# ------------------------------------------------------------------------------------ evidence
class Report:
    """collects obligations of one check run and writes evidence + exit status"""

    def __init__(self, prop, level='model_checking'):
        self.prop = prop
        self.level = level
        self.obs = []
        self.t0 = time.time()
        self.assumptions = []
        self.bounds = {}
        self.functions = set()
        self.stubs = set()
        self.validated = 0
        self.validation_mismatch = []
        self.notes = []
        self.extra = {}
        self.solver_time = {}
        self.paths = 0
        self.known = Known()
        self.explanation = ''

    def add(self, ob):
        self.obs.append(ob)
        self.solver_time[ob.cls] = self.solver_time.get(ob.cls, 0.0) + (ob.secs or 0.0)

    def extend(self, obs):
        for o in obs:
            self.add(o)

    def finish(self):
        os.makedirs(EVID, exist_ok=True)
        viol = [o for o in self.obs if o.verdict == 'violated']
        known_hits = []
        new_viol = []
        for o in viol:
            k = self.known.match(self.prop, o.key)
            if k:
                known_hits.append((o, k))
            else:
                new_viol.append(o)
        disc = [o for o in self.obs if o.verdict == 'discharged']
        inc = [o for o in self.obs if o.verdict == 'inconclusive']
        nontriv = len({o.hash or o.oid for o in self.obs if not o.syntactic and o.verdict in ('discharged', 'violated')})
        samples = []
        seen_cls = set()
        for o in self.obs:
            if o.cls not in seen_cls and o.smt:
                seen_cls.add(o.cls)
                samples.append({'obligation': o.oid, 'class': o.cls, 'mode': o.mode, 'statement': o.desc,
                                'verdict': o.verdict, 'solver_s': round(o.secs or 0, 4), 'smtlib_head': o.smt[:1800]})
            if len(samples) >= 8:
                break
        if not samples:
            for o in self.obs[:3]:
                samples.append({'obligation': o.oid, 'class': o.cls, 'mode': o.mode, 'statement': o.desc, 'verdict': o.verdict})
        bycls = {}
        for o in self.obs:
            d = bycls.setdefault(o.cls, {'obligations': 0, 'discharged': 0, 'inconclusive': 0, 'violated': 0, 'syntactic': 0,
                                         'solver_s': 0.0, 'mode': o.mode})
            d['obligations'] += 1
            d[o.verdict] += 1
            d['syntactic'] += 1 if o.syntactic else 0
            d['solver_s'] = round(d['solver_s'] + (o.secs or 0.0), 3)
        cov = {
            'obligations': len(self.obs),
            'discharged': len(disc),
            'inconclusive': len(inc),
            'violations_new': len(new_viol),
            'violations_known': len(known_hits),
            'closed_syntactically': sum(1 for o in self.obs if o.syntactic),
            'reached_solver': sum(1 for o in self.obs if not o.syntactic and o.verdict != 'inconclusive'),
            'evaluations': max(1, len(self.obs)),
            'distinct_nontrivial': nontriv,
            'rule': 'one evaluation = one proof obligation posed on symbolic inputs; distinct = distinct hash of the '
                    'solver query; non-trivial = the two sides were not the same hash-consed term, so the SMT solver '
                    'actually decided it (syntactically closed and inconclusive obligations are not counted)',
            'states': max(1, self.paths),
            'transitions': max(1, len(self.obs)),
            'states_meaning': 'symbolic execution paths through the encoded functions; transitions = obligations decided',
            'traces_validated_against_impl': self.validated,
            'encoding_mismatches': self.validation_mismatch[:10],
            'samples': samples,
            'by_class': bycls,
            'functions_encoded': len(self.functions),
            'functions_encoded_sample': sorted(self.functions)[:40],
            'stubs_hit': sorted(self.stubs),
            'bounds': self.bounds,
            'solver_wall_s_by_class': {k: round(v, 3) for k, v in self.solver_time.items()},
            'inconclusive_reasons': summarize_reasons(inc),
            'known_findings_hit': [{'key': o.key, 'finding': k[2]} for o, k in known_hits][:20],
            'notes': self.notes,
            'explanation': self.explanation or 'bounded symbolic checking of clang LLVM IR of the real phq code with z3; see DESIGN.md',
            'exhaustive': False,
        }
        cov.update(self.extra)
        ev = {'property_id': self.prop, 'tier': tier() if tier() in ('quick', 'thorough') else 'quick', 'seed': seed(),
              'level': self.level, 'coverage': cov, 'assumptions': self.assumptions,
              'wall_s': round(time.time() - self.t0, 2), 'violations': len(new_viol)}
        with open(os.path.join(EVID, self.prop + '.json'), 'w') as f:
            json.dump(ev, f, indent=1, default=str)
        print('%s: obligations=%d discharged=%d inconclusive=%d violations=%d known=%d wall=%.1fs' % (
            self.prop, len(self.obs), len(disc), len(inc), len(new_viol), len(known_hits), time.time() - self.t0))
        done = set()
        for o, k in known_hits:
            if k[1] in done:
                continue
            done.add(k[1])
            print('KNOWN-FINDING: property=%s %s (%s)' % (self.prop, k[2], o.key))
        for o in new_viol[:50]:
            print('VIOLATION property=%s replay=%s' % (self.prop, o.replay or 'none'))
            print('  ' + o.desc + ' :: ' + ((o.reason or '') if len(o.reason or '') < 1500 else (o.reason[:1400] + ' ... [%d characters; full text in the replay case]' % len(o.reason))))
        if os.environ.get('PHQV_VERBOSE'):
            for o in inc:
                print('  INCONCLUSIVE %s :: %s' % (o.oid, (o.reason or '')[:300]))
        if inc:
            rs = summarize_reasons(inc)
            print('  inconclusive: ' + '; '.join('%s x%d' % (k, v) for k, v in list(rs.items())[:8]))
        return 1 if new_viol else 0


def summarize_reasons(inc):
    d = {}
    for o in inc:
        r = re.sub(r'[%@]?[\w.]*\d[\w.]*', '#', (o.reason or 'unknown'))[:90]
        d[r] = d.get(r, 0) + 1
    return dict(sorted(d.items(), key=lambda kv: -kv[1]))


def write_replay(prop, name, case):
    d = os.path.join(REPLAYS, prop)
    os.makedirs(d, exist_ok=True)
    p = os.path.join(d, re.sub(r'[^\w.-]', '_', name)[:110] + '_' + hashlib.md5(name.encode()).hexdigest()[:6] + '.json')
    with open(p, 'w') as f:
        json.dump(case, f, indent=1, default=str)
    return p


def ground_ob(prop, oid, cls, desc, ok, detail=''):
    """a finite, ground fact (table contents against an oracle or against each other): decided by direct evaluation;
    recorded as an obligation so that evidence is uniform (the solver adds nothing here and is not pretended to)"""
    o = Ob(oid, cls, 'GROUND', desc)
    o.syntactic = True
    o.key = oid
    if ok:
        o.verdict = 'discharged'
    else:
        o.verdict = 'violated'
        o.reason = detail
        o.replay = write_replay(prop, oid, {'kind': 'ground', 'property': prop, 'obligation': oid, 'statement': desc, 'observed': detail,
                                           'includes': [], 'wrappers': [], 'impl': None, 'inputs': []})
    return o
