"""Symbolic executor for the LLVM IR fragment phq kernels lower to.

Path-enumerating; integers are folded when concrete; floating point operations build neutral terms
(phqv.terms) that are later read bit-precisely (BIT), over the reals (REAL) or in the standard model
of rounding (ROUND).  Pointers are always concrete (region, byte offset) pairs.
"""
from fractions import Fraction
from .. import terms as tm
from ..terms import T, mk, ic, fc

MAX_PATHS = 4096
MAX_STEPS = 400000
MAX_BLOCK_VISITS = 600
MAX_DEPTH = 64


class Unsupported(Exception):
    pass


class Ptr:
    __slots__ = ('region', 'off')

    def __init__(self, region, off):
        self.region, self.off = region, off

    def __repr__(self):
        return 'Ptr(%s+%d)' % (self.region, self.off)

    def __eq__(self, o):
        return isinstance(o, Ptr) and self.region == o.region and self.off == o.off

    def __hash__(self):
        return hash((self.region, self.off))


class FnPtr:
    __slots__ = ('name',)

    def __init__(self, name):
        self.name = name

    def __repr__(self):
        return 'Fn(%s)' % self.name

    def __eq__(self, o):
        return isinstance(o, FnPtr) and self.name == o.name

    def __hash__(self):
        return hash(self.name)


class Undef:
    def __repr__(self):
        return 'undef'


UNDEF = Undef()
NULL = Ptr(None, 0)


class Region:
    __slots__ = ('rid', 'size', 'cells', 'kind', 'alive', 'name', 'const')

    def __init__(self, rid, size, kind, name='', const=False):
        self.rid, self.size, self.kind, self.name, self.const = rid, size, kind, name, const
        self.cells = {}  # off -> (nbytes, ty, value)
        self.alive = True

    def clone(self):
        r = Region(self.rid, self.size, self.kind, self.name, self.const)
        r.cells = dict(self.cells)
        r.alive = self.alive
        return r


class Frame:
    __slots__ = ('func', 'env', 'block', 'prev', 'ip', 'dst', 'normal', 'unwind', 'visits', 'allocas')

    def __init__(self, func, env):
        self.func, self.env = func, env
        self.block = func.order[0]
        self.prev = None
        self.ip = 0
        self.dst = None
        self.normal = None
        self.unwind = None
        self.visits = {}
        self.allocas = []

    def clone(self):
        f = Frame.__new__(Frame)
        f.func, f.env, f.block, f.prev, f.ip = self.func, dict(self.env), self.block, self.prev, self.ip
        f.dst, f.normal, f.unwind = self.dst, self.normal, self.unwind
        f.visits = dict(self.visits)
        f.allocas = list(self.allocas)
        return f


class State:
    def __init__(self):
        self.frames = []
        self.regions = {}
        self.pc = []        # list of i1 terms assumed true
        self.pcset = set()
        self.ub = []        # list of (kind, detail)
        self.events = []    # stub call trace
        self.steps = 0
        self.nrid = 0
        self.status = None
        self.ret = None
        self.globmap = {}   # global name -> rid
        self.extra = {}     # scratch for summaries (copied shallowly)
        self.owned = set()  # region ids this state may mutate in place (copy-on-write otherwise)
        self.pinned = {}    # term id -> concrete int value implied by the path condition (x == const)

    def wreg(self, rid):
        """writable view of a region (copy on first write after a fork)"""
        if rid not in self.owned:
            self.regions[rid] = self.regions[rid].clone()
            self.owned.add(rid)
        return self.regions[rid]

    def clone(self):
        s = State.__new__(State)
        s.frames = [f.clone() for f in self.frames]
        s.regions = dict(self.regions)
        s.owned = set()
        self.owned = set()
        s.pinned = dict(self.pinned)
        s.pc = list(self.pc)
        s.pcset = set(self.pcset)
        s.ub = list(self.ub)
        s.events = list(self.events)
        s.steps = self.steps
        s.nrid = self.nrid
        s.status = self.status
        s.ret = self.ret
        s.globmap = dict(self.globmap)
        s.extra = dict(self.extra)
        return s

    def new_region(self, size, kind, name='', const=False):
        rid = self.nrid
        self.nrid += 1
        self.regions[rid] = Region(rid, size, kind, name, const)
        self.owned.add(rid)
        return rid

    def assume(self, c):
        if tm.is_ic(c):
            return c.args[0] == 1
        if c.id in self.pcset:
            return True
        self.pc.append(c)
        self.pcset.add(c.id)
        if c.op == 'icmp' and c.args[0] == 'eq' and tm.is_ic(c.args[2]) and isinstance(c.args[1], T):
            self.pinned[c.args[1].id] = c.args[2]
        return True


LIBM = {}
for _n in ('sqrt', 'fabs', 'acos', 'asin', 'atan', 'atan2', 'cos', 'sin', 'tan', 'pow', 'exp', 'log', 'log2',
           'log10', 'cbrt', 'floor', 'ceil', 'fmod', 'hypot', 'exp2', 'cosh', 'sinh', 'tanh'):
    LIBM[_n] = _n
    LIBM[_n + 'f'] = _n
    LIBM[_n + 'l'] = _n
    LIBM['llvm.' + _n + '.f32'] = _n
    LIBM['llvm.' + _n + '.f64'] = _n
    LIBM['llvm.' + _n + '.f80'] = _n

IGNORED_INTRINSICS = ('llvm.lifetime.', 'llvm.dbg.', 'llvm.assume', 'llvm.experimental.noalias',
                      'llvm.invariant.', 'llvm.donothing')


class Executor:
    def __init__(self, mod, summaries=None):
        self.mod = mod
        self.summaries = summaries or {}
        self.functions_entered = set()
        self.stubs_hit = set()
        self.max_paths = MAX_PATHS

    # ---------------------------------------------------------------- types
    def resolve(self, ty):
        while ty[0] == 'named':
            ty = self.mod.types[ty[1]]
        return ty

    def sizeof(self, ty):
        ty = self.resolve(ty)
        k = ty[0]
        if k == 'int':
            b = ty[1]
            return 1 if b <= 8 else 2 if b <= 16 else 4 if b <= 32 else 8 if b <= 64 else 16
        if k == 'float':
            return {'f32': 4, 'f64': 8, 'f80': 16, 'f16': 2, 'f128': 16}[ty[1]]
        if k == 'ptr':
            return 8
        if k == 'array':
            return ty[1] * self.sizeof(ty[2])
        if k == 'vec':
            return ty[1] * self.sizeof(ty[2])
        if k == 'struct':
            return self.layout(ty)[1]
        if k == 'func':
            return 8
        raise Unsupported('sizeof %r' % (ty,))

    def storesize(self, ty):
        ty = self.resolve(ty)
        if ty == ('float', 'f80'):
            return 10
        if ty[0] == 'int':
            return (ty[1] + 7) // 8
        return self.sizeof(ty)

    def alignof(self, ty):
        ty = self.resolve(ty)
        k = ty[0]
        if k in ('int', 'float', 'ptr'):
            return self.sizeof(ty)
        if k == 'array':
            return self.alignof(ty[2])
        if k == 'vec':
            return self.sizeof(ty)
        if k == 'struct':
            if ty[1]:
                return 1
            return max([self.alignof(e) for e in ty[2]] or [1])
        raise Unsupported('alignof %r' % (ty,))

    def layout(self, ty):
        """struct -> ([field offsets], total size)"""
        ty = self.resolve(ty)
        off = 0
        offs = []
        packed = ty[1]
        al = 1
        for e in ty[2]:
            a = 1 if packed else self.alignof(e)
            al = max(al, a)
            off = (off + a - 1) // a * a
            offs.append(off)
            off += self.sizeof(e)
        off = (off + al - 1) // al * al
        return offs, off

    def tt(self, ty):
        ty = self.resolve(ty)
        if ty[0] == 'int':
            return 'i%d' % ty[1]
        if ty[0] == 'float':
            return ty[1]
        if ty[0] == 'ptr':
            return 'ptr'
        return None

    # ---------------------------------------------------------------- constants / operands
    def zero_value(self, ty):
        ty = self.resolve(ty)
        k = ty[0]
        if k == 'int':
            return ic('i%d' % ty[1], 0)
        if k == 'float':
            return fc(ty[1], Fraction(0))
        if k == 'ptr':
            return NULL
        if k == 'array':
            return ('agg', [self.zero_value(ty[2]) for _ in range(ty[1])])
        if k == 'vec':
            return ('vec', [self.zero_value(ty[2]) for _ in range(ty[1])])
        if k == 'struct':
            return ('agg', [self.zero_value(e) for e in ty[2]])
        raise Unsupported('zero of %r' % (ty,))

    def undef_value(self, ty):
        ty = self.resolve(ty)
        k = ty[0]
        if k == 'array':
            return ('agg', [self.undef_value(ty[2]) for _ in range(ty[1])])
        if k == 'vec':
            return ('vec', [self.undef_value(ty[2]) for _ in range(ty[1])])
        if k == 'struct':
            return ('agg', [self.undef_value(e) for e in ty[2]])
        return UNDEF

    def global_ptr(self, st, name):
        if name in self.mod.functions:
            return FnPtr(name)
        g = self.mod.globals.get(name)
        if g is None:
            raise Unsupported('unknown global @%s' % name)
        if g.init is not None and g.init[0] == 'alias':
            return self.const_value(st, g.init[1][0], g.init[1][1])
        if name in st.globmap:
            return Ptr(st.globmap[name], 0)
        if g.ty is None:
            raise Unsupported('unparsed global @%s: %s' % (name, g.init))
        size = self.sizeof(g.ty)
        rid = st.new_region(size, 'global', name, g.constant)
        st.globmap[name] = rid
        if g.init is not None:
            self.write_const(st, st.wreg(rid), 0, g.ty, g.init)
        elif not g.external:
            pass
        return Ptr(rid, 0)

    def write_const(self, st, reg, off, ty, v):
        ty = self.resolve(ty)
        k = ty[0]
        if v[0] == 'undef':
            return
        if k in ('int', 'float', 'ptr'):
            val = self.const_value(st, ty, v)
            reg.cells[off] = (self.storesize(ty), self.tt(ty), val)
            return
        if k == 'array':
            es = self.sizeof(ty[2])
            if v[0] == 'str':
                for i, b in enumerate(v[1]):
                    reg.cells[off + i] = (1, 'i8', ic('i8', b))
                return
            if v[0] == 'zero':
                for i in range(ty[1]):
                    self.write_const(st, reg, off + i * es, ty[2], ('zero',))
                return
            for i, (et, ev) in enumerate(v[1]):
                self.write_const(st, reg, off + i * es, et, ev)
            return
        if k == 'struct':
            offs, _ = self.layout(ty)
            if v[0] == 'zero':
                for o, e in zip(offs, ty[2]):
                    self.write_const(st, reg, off + o, e, ('zero',))
                return
            for o, (et, ev) in zip(offs, v[1]):
                self.write_const(st, reg, off + o, et, ev)
            return
        if k == 'vec':
            es = self.sizeof(ty[2])
            if v[0] == 'zero':
                for i in range(ty[1]):
                    self.write_const(st, reg, off + i * es, ty[2], ('zero',))
                return
            for i, (et, ev) in enumerate(v[1]):
                self.write_const(st, reg, off + i * es, et, ev)
            return
        raise Unsupported('const of type %r' % (ty,))

    def const_value(self, st, ty, v):
        ty = self.resolve(ty)
        k = v[0]
        if k == 'int':
            if ty[0] == 'float':
                return fc(ty[1], Fraction(v[1]))
            return ic('i%d' % ty[1], v[1])
        if k == 'fp':
            return fc(ty[1], v[1])
        if k == 'null':
            return NULL
        if k == 'undef':
            return self.undef_value(ty)
        if k == 'zero':
            return self.zero_value(ty)
        if k == 'glob':
            return self.global_ptr(st, v[1])
        if k == 'agg':
            tag = 'vec' if ty[0] == 'vec' else 'agg'
            return (tag, [self.const_value(st, et, ev) for et, ev in v[1]])
        if k == 'str':
            return ('agg', [ic('i8', b) for b in v[1]])
        if k == 'cexpr':
            return self.const_expr(st, v)
        raise Unsupported('const value %r' % (v,))

    def const_expr(self, st, v):
        op = v[1]
        if op == 'getelementptr':
            _, _, bt, (pt, pv), idx = v
            p = self.const_value(st, pt, pv)
            ids = [self.const_value(st, it, iv) for it, iv in idx]
            return self.gep(p, bt, ids)
        if op in ('bitcast', 'addrspacecast'):
            (stt, sv), dt = v[2], v[3]
            return self.const_value(st, stt, sv)
        if op == 'ptrtoint':
            (stt, sv), dt = v[2], v[3]
            p = self.const_value(st, stt, sv)
            return ('ptrint', p)
        if op == 'inttoptr':
            (stt, sv), dt = v[2], v[3]
            x = self.const_value(st, stt, sv)
            if isinstance(x, tuple) and x[0] == 'ptrint':
                return x[1]
            if tm.is_ic(x) and x.args[0] == 0:
                return NULL
            raise Unsupported('inttoptr const')
        raise Unsupported('const expr %s' % op)

    def operand(self, st, fr, ty, v):
        if v[0] == 'loc':
            try:
                return fr.env[v[1]]
            except KeyError:
                raise Unsupported('use of undefined %%%s in %s' % (v[1], fr.func.name))
        return self.const_value(st, ty, v)

    # ---------------------------------------------------------------- memory
    def gep(self, p, bt, ids):
        if isinstance(p, FnPtr):
            raise Unsupported('gep on function pointer')
        if not isinstance(p, Ptr):
            raise Unsupported('gep on non-pointer %r' % (p,))
        off = p.off
        ty = bt
        first = True
        for i in ids:
            if not tm.is_ic(i):
                raise Unsupported('symbolic gep index')
            iv = tm.sval(i)
            if first:
                off += iv * self.sizeof(ty)
                first = False
                continue
            ty = self.resolve(ty)
            if ty[0] == 'struct':
                off += self.layout(ty)[0][iv]
                ty = ty[2][iv]
            elif ty[0] in ('array', 'vec'):
                off += iv * self.sizeof(ty[2])
                ty = ty[2]
            else:
                raise Unsupported('gep into %r' % (ty,))
        return Ptr(p.region, off)

    def check_access(self, st, p, n, what):
        if isinstance(p, FnPtr) or not isinstance(p, Ptr):
            st.ub.append((what + ' through non-object pointer', repr(p)))
            return None
        if p.region is None:
            st.ub.append((what + ' through null pointer', ''))
            return None
        reg = st.regions[p.region]
        if not reg.alive:
            st.ub.append((what + ' of dead object', reg.name))
            return None
        if p.off < 0 or p.off + n > reg.size:
            st.ub.append((what + ' out of bounds', '%s+%d size %d' % (reg.name, p.off, reg.size)))
            return None
        return reg

    def load(self, st, p, ty):
        ty = self.resolve(ty)
        k = ty[0]
        if k == 'array':
            es = self.sizeof(ty[2])
            return ('agg', [self.load(st, Ptr(p.region, p.off + i * es), ty[2]) for i in range(ty[1])])
        if k == 'vec':
            es = self.sizeof(ty[2])
            return ('vec', [self.load(st, Ptr(p.region, p.off + i * es), ty[2]) for i in range(ty[1])])
        if k == 'struct':
            offs, _ = self.layout(ty)
            return ('agg', [self.load(st, Ptr(p.region, p.off + o), e) for o, e in zip(offs, ty[2])])
        n = self.storesize(ty)
        reg = self.check_access(st, p, n, 'load')
        if reg is None:
            return self.fresh_garbage(ty)
        pend = st.extra.get('pending_init')
        if pend and reg.kind == 'global' and reg.name in pend:
            # a namespace-scope object read before its own dynamic initialiser has run (static-initialisation order)
            st.ub.append(('read of a namespace-scope object before its dynamic initialisation', reg.name))
        want = self.tt(ty)
        c = reg.cells.get(p.off)
        if c is not None and c[0] == n:
            return self.convert_cell(c, want, st)
        # assemble from several cells / part of a cell (bytes)
        bits = self.read_bits(st, reg, p.off, n, garbage_ok=True)
        if bits is None:
            return self.fresh_garbage(ty)
        return self.from_bits(bits, want)

    _garbage = [0]

    def fresh_garbage(self, ty):
        self._garbage[0] += 1
        t = self.tt(ty)
        if t == 'ptr':
            return NULL
        return tm.arg(t, '__garbage%d' % self._garbage[0])

    def convert_cell(self, c, want, st):
        n, have, val = c
        if have == want:
            return val
        if isinstance(val, (Ptr, FnPtr)):
            if want == 'i64':
                return ('ptrint', val)
            raise Unsupported('load %s from pointer cell' % want)
        if isinstance(val, tuple) and val[0] == 'ptrint':
            if want == 'ptr':
                return val[1]
            raise Unsupported('load %s from ptrint cell' % want)
        if want == 'ptr':
            if tm.is_ic(val) and val.args[0] == 0:
                return NULL
            raise Unsupported('load ptr from %s cell' % have)
        if val is UNDEF:
            return UNDEF
        return self.from_bits(self.to_bits(val), want)

    def to_bits(self, val):
        """term -> integer term of the same storage width"""
        if not isinstance(val, T):
            raise Unsupported('to_bits of %r' % (val,))
        if tm.is_f(val.ty):
            return mk('bitcast', 'i%d' % tm.FBITS[val.ty], val)
        return val

    def from_bits(self, bits, want):
        if want == bits.ty:
            return bits
        if tm.is_f(want):
            w = tm.FBITS[want]
            if tm.ibits(bits.ty) > w:
                bits = mk('extract', 'i%d' % w, w - 1, 0, bits)
            elif tm.ibits(bits.ty) < w:
                raise Unsupported('float load from narrower bits')
            return mk('bitcast', want, bits)
        wb = tm.ibits(want)
        hb = tm.ibits(bits.ty)
        if wb == hb:
            return bits
        if wb < hb:
            return mk('trunc', want, bits)
        raise Unsupported('from_bits widen')

    def read_bits(self, st, reg, off, n, garbage_ok=False):
        """little-endian integer term made of bytes [off, off+n) or None if any byte is uninitialised.  With
        garbage_ok an uninitialised byte becomes a fresh `__garbage` variable: reading indeterminate bytes is not
        itself undefined behaviour; branching on them or returning them is, and is flagged there."""
        parts = []  # (nbits, term) low to high
        pos = off
        end = off + n
        while pos < end:
            # find cell covering pos
            found = None
            for back in range(0, 17):
                c = reg.cells.get(pos - back)
                if c is not None:
                    csz = c[0] if c[1] != 'f80' else 10
                    if pos - back + csz > pos:
                        found = (pos - back, c, csz)
                    break
            if found is None:
                if not garbage_ok:
                    return None
                self._garbage[0] += 1
                parts.append(tm.arg('i8', '__garbage%d' % self._garbage[0]))
                pos += 1
                continue
            coff, c, csz = found
            if isinstance(c[2], (Ptr, FnPtr, Undef)) or (isinstance(c[2], tuple)):
                raise Unsupported('partial load of pointer/undef cell')
            b = self.to_bits(c[2])
            lo = pos - coff
            hi = min(csz, end - coff)
            if lo != 0 or hi != csz or tm.ibits(b.ty) != 8 * csz:
                b = mk('extract', 'i%d' % (8 * (hi - lo)), 8 * hi - 1, 8 * lo, b)
            parts.append(b)
            pos = coff + hi
        r = parts[0]
        for p in parts[1:]:
            w = tm.ibits(r.ty) + tm.ibits(p.ty)
            if tm.is_ic(r) and tm.is_ic(p):
                r = ic('i%d' % w, r.args[0] | (p.args[0] << tm.ibits(r.ty)))
            else:
                r = mk('concat', 'i%d' % w, p, r)
        return r

    def store(self, st, p, ty, val):
        ty = self.resolve(ty)
        k = ty[0]
        if k in ('array', 'vec'):
            es = self.sizeof(ty[2])
            for i in range(ty[1]):
                self.store(st, Ptr(p.region, p.off + i * es), ty[2], val[1][i] if val is not UNDEF else UNDEF)
            return
        if k == 'struct':
            offs, _ = self.layout(ty)
            for i, (o, e) in enumerate(zip(offs, ty[2])):
                self.store(st, Ptr(p.region, p.off + o), e, val[1][i] if val is not UNDEF else UNDEF)
            return
        n = self.storesize(ty)
        reg = self.check_access(st, p, n, 'store')
        if reg is None:
            return
        if reg.const:
            st.ub.append(('store to constant', reg.name))
            return
        reg = st.wreg(p.region)
        self.clobber(st, reg, p.off, n)
        if val is UNDEF:
            return
        reg.cells[p.off] = (n, self.tt(ty), val)

    def clobber(self, st, reg, off, n):
        """remove/split cells overlapping [off, off+n)"""
        for o in range(off - 16, off + n):
            c = reg.cells.get(o)
            if c is None:
                continue
            end = o + c[0]
            if end <= off:
                continue
            if o >= off and end <= off + n:
                del reg.cells[o]
                continue
            self.explode(st, reg, o, cuts=[off, off + n])
            for j in range(max(o, off), min(end, off + n)):
                reg.cells.pop(j, None)

    def explode(self, st, reg, o, cuts=None):
        """split the cell at offset o into integer pieces; cuts = byte offsets (absolute) at which to split,
        default every byte"""
        n, ty, val = reg.cells[o]
        if isinstance(val, (Ptr, FnPtr, Undef, tuple)):
            raise Unsupported('partial overwrite of pointer cell')
        b = self.to_bits(val)
        nb = n if ty != 'f80' else 10
        del reg.cells[o]
        if cuts is None:
            pts = list(range(o, o + nb + 1))
        else:
            pts = sorted(set([o, o + nb] + [c for c in cuts if o < c < o + nb]))
        for a_, b_ in zip(pts, pts[1:]):
            w = 8 * (b_ - a_)
            reg.cells[a_] = (b_ - a_, 'i%d' % w, mk('extract', 'i%d' % w, 8 * (b_ - o) - 1, 8 * (a_ - o), b))

    def memcpy(self, st, dst, src, n):
        if n == 0:
            return
        sreg = self.check_access(st, src, n, 'memcpy source')
        dreg = self.check_access(st, dst, n, 'memcpy destination')
        if sreg is None or dreg is None:
            return
        if dreg.const:
            st.ub.append(('store to constant', dreg.name))
            return
        dreg = st.wreg(dst.region)
        if src.region == dst.region:
            sreg = dreg
        moved = []
        for o, c in sreg.cells.items():
            if o >= src.off and o + c[0] <= src.off + n:
                moved.append((o - src.off, c))
            elif o < src.off + n and o + c[0] > src.off:
                # partially covered cell: copy the covered bytes
                if c[1] == 'f80' and o >= src.off and o + 10 <= src.off + n:
                    moved.append((o - src.off, c))
                    continue
                b = self.to_bits(c[2]) if isinstance(c[2], T) else None
                if b is None:
                    raise Unsupported('memcpy splits pointer cell')
                lo = max(o, src.off)
                hi = min(o + (c[0] if c[1] != 'f80' else 10), src.off + n)
                for j in range(lo, hi):
                    moved.append((j - src.off, (1, 'i8', mk('extract', 'i8', 8 * (j - o) + 7, 8 * (j - o), b))))
        self.clobber(st, dreg, dst.off, n)
        for rel, c in moved:
            dreg.cells[dst.off + rel] = c

    def memset(self, st, dst, byte, n):
        if n == 0:
            return
        dreg = self.check_access(st, dst, n, 'memset')
        if dreg is None:
            return
        dreg = st.wreg(dst.region)
        self.clobber(st, dreg, dst.off, n)
        for j in range(n):
            dreg.cells[dst.off + j] = (1, 'i8', byte)

    # ---------------------------------------------------------------- running
    def run(self, fname, args, st=None):
        """execute function fname with argument values; returns list of finished states"""
        if st is None:
            st = State()
        f = self.mod.functions.get(fname)
        if f is None or f.declared:
            raise Unsupported('function %s not defined' % fname)
        fr = Frame(f, {pn: a for (pt, pn), a in zip(f.params, args)})
        st.frames.append(fr)
        self.functions_entered.add(fname)
        work = [st]
        done = []
        while work:
            s = work.pop()
            try:
                forks = self.run_state(s)
            except Unsupported as e:
                if not s.ub:
                    raise
                # something unsupported after undefined behaviour was already recorded on this path (e.g. garbage read
                # through an end() iterator): the path ends here, the others go on
                s.status = 'unsupported-after-ub: %s' % str(e)[:80]
                forks = [s]
            for x in forks:
                if x.status is not None:
                    done.append(x)
                else:
                    work.append(x)
            if len(done) + len(work) > self.max_paths:
                raise Unsupported('path bound %d exceeded' % self.max_paths)
        return done

    def run_state(self, st):
        """run until the state finishes or forks; returns list of states"""
        while True:
            fr = st.frames[-1]
            blk = fr.func.blocks[fr.block]
            if fr.ip >= len(blk):
                raise Unsupported('fell off block %s in %s' % (fr.block, fr.func.name))
            ins = blk[fr.ip]
            fr.ip += 1
            st.steps += 1
            if st.steps > MAX_STEPS:
                raise Unsupported('step bound exceeded')
            r = self.step(st, fr, ins)
            if r is not None:
                return r
            if st.status is not None:
                return [st]

    def jump(self, st, fr, label):
        v = fr.visits.get(label, 0) + 1
        if v > MAX_BLOCK_VISITS:
            raise Unsupported('loop bound %d exceeded at %s in %s' % (MAX_BLOCK_VISITS, label, fr.func.name))
        fr.visits[label] = v
        fr.prev = fr.block
        fr.block = label
        fr.ip = 0
        # evaluate all phis of the target block simultaneously
        blk = fr.func.blocks[label]
        vals = []
        for ins in blk:
            if ins.op != 'phi':
                break
            t, inc = ins.a
            for v_, l in inc:
                if l == fr.prev:
                    vals.append((ins.res, self.operand(st, fr, t, v_)))
                    break
            else:
                raise Unsupported('phi without incoming for %s' % fr.prev)
            fr.ip += 1
        for r, v_ in vals:
            fr.env[r] = v_

    def do_ret(self, st, val):
        fr = st.frames.pop()
        for rid in fr.allocas:
            st.wreg(rid).alive = False
        if not st.frames:
            st.status = 'ret'
            st.ret = val
            return
        caller = st.frames[-1]
        if fr.dst is not None:
            caller.env[fr.dst] = val
        if fr.normal is not None:
            self.jump(st, caller, fr.normal)

    def throw(self, st, what, ins=None, detail=''):
        """an exception of type `what` is thrown by the call instruction `ins` of the top frame (or, ins=None, by a
        `resume` of the top frame): unwind to the nearest enclosing invoke, running the landing pads of the real code
        (cleanups, catch clauses); if no frame catches it the path ends with status 'throw:<what>'."""
        if ins is not None:
            st.events.append(('throw', what, detail))
            st.extra['exc'] = what
            u = ins.a[4] if ins.op == 'call' and len(ins.a) > 4 else None
            if u is not None:
                self.jump(st, st.frames[-1], u)
                return None
        while st.frames:
            fr = st.frames.pop()
            for rid in fr.allocas:
                st.wreg(rid).alive = False
            if not st.frames:
                break
            if fr.unwind is not None:
                self.jump(st, st.frames[-1], fr.unwind)
                return None
        st.status = 'throw:' + str(st.extra.get('exc', what))
        return None

    def fork_branch(self, st, c, on_true, on_false):
        """c: i1 term. on_true/on_false: callables(state) performing the jump"""
        if tm.is_ic(c):
            (on_true if c.args[0] else on_false)(st)
            return None
        if c is UNDEF or not isinstance(c, T):
            raise Unsupported('branch on %r' % (c,))
        if any(a.startswith('__garbage') for a in tm.free_args(c)):
            st.ub.append(('branch on an uninitialised value', tm.show(c, 3)))
        nc = tm.negate(c)
        if c.op == 'icmp' and isinstance(c.args[1], T) and c.args[1].id in st.pinned and tm.is_ic(c.args[2]):
            v = mk('icmp', 'i1', c.args[0], st.pinned[c.args[1].id], c.args[2])
            (on_true if v.args[0] else on_false)(st)
            return None
        if c.id in st.pcset:
            on_true(st)
            return None
        if nc.id in st.pcset:
            on_false(st)
            return None
        s2 = st.clone()
        st.assume(c)
        on_true(st)
        s2.assume(nc)
        on_false(s2)
        return [st, s2]

    def binop(self, op, ty, a, b, flags):
        if isinstance(a, tuple) and a[0] == 'vec':
            return ('vec', [self.binop(op, ty[2], x, y, flags) for x, y in zip(a[1], b[1])])
        t = self.tt(ty)
        if a is UNDEF or b is UNDEF:
            return UNDEF
        if not isinstance(a, T) or not isinstance(b, T):
            if op in ('sub',) and isinstance(a, tuple) and isinstance(b, tuple) and a[0] == 'ptrint' and b[0] == 'ptrint' \
                    and a[1].region == b[1].region:
                return ic(t, a[1].off - b[1].off)
            if op in ('add', 'sub') and isinstance(a, tuple) and a[0] == 'ptrint' and tm.is_ic(b):
                d = tm.sval(b)
                return ('ptrint', Ptr(a[1].region, a[1].off + (d if op == 'add' else -d)))
            raise Unsupported('binop %s on %r, %r' % (op, a, b))
        return mk(op, t, a, b)

    def step(self, st, fr, ins):
        op = ins.op
        a = ins.a
        env = fr.env
        if op in tm.COMM or op in ('sub', 'udiv', 'sdiv', 'urem', 'srem', 'shl', 'lshr', 'ashr', 'fsub', 'fdiv', 'frem'):
            ty, x, y, flags = a
            xv = self.operand(st, fr, ty, x)
            yv = self.operand(st, fr, ty, y)
            if op in ('add', 'sub', 'mul') and 'nsw' in flags and tm.is_ic(xv) and tm.is_ic(yv):
                sx, sy = tm.sval(xv), tm.sval(yv)
                r = sx + sy if op == 'add' else sx - sy if op == 'sub' else sx * sy
                b = tm.ibits(xv.ty)
                if not (-(1 << (b - 1)) <= r < (1 << (b - 1))):
                    st.ub.append(('signed overflow', ins.text))
            if op in ('udiv', 'sdiv', 'urem', 'srem') and tm.is_ic(yv) and yv.args[0] == 0:
                st.ub.append(('integer division by zero', ins.text))
            env[ins.res] = self.binop(op, ty, xv, yv, flags)
            return None
        if op == 'fneg':
            ty, x = a
            xv = self.operand(st, fr, ty, x)
            if isinstance(xv, tuple):
                env[ins.res] = ('vec', [mk('fneg', e.ty, e) for e in xv[1]])
            else:
                env[ins.res] = mk('fneg', self.tt(ty), xv)
            return None
        if op in ('icmp', 'fcmp'):
            pred, ty, x, y = a
            xv = self.operand(st, fr, ty, x)
            yv = self.operand(st, fr, ty, y)
            if op == 'icmp' and (isinstance(xv, (Ptr, FnPtr)) or isinstance(yv, (Ptr, FnPtr))):
                env[ins.res] = self.ptr_cmp(pred, xv, yv)
                return None
            if xv is UNDEF or yv is UNDEF:
                env[ins.res] = UNDEF
                return None
            if isinstance(xv, tuple) and xv[0] == 'vec' and isinstance(yv, tuple) and yv[0] == 'vec':
                env[ins.res] = ('vec', [UNDEF if (p_ is UNDEF or q_ is UNDEF) else mk(op, 'i1', pred, p_, q_)
                                        for p_, q_ in zip(xv[1], yv[1])])
                return None
            if op == 'fcmp' and pred in ('true', 'false'):
                env[ins.res] = ic('i1', 1 if pred == 'true' else 0)
                return None
            if not isinstance(xv, T) or not isinstance(yv, T):
                raise Unsupported('cmp on %r %r' % (xv, yv))
            env[ins.res] = mk(op, 'i1', pred, xv, yv)
            return None
        if op == 'select':
            (ct, cv), (t1, v1), (t2, v2) = a
            c = self.operand(st, fr, ct, cv)
            x = self.operand(st, fr, t1, v1)
            y = self.operand(st, fr, t2, v2)
            if tm.is_ic(c):
                env[ins.res] = x if c.args[0] else y
                return None
            if isinstance(c, tuple) and c[0] == 'vec':
                env[ins.res] = ('vec', [mk('select', p_.ty, cc, p_, q_) for cc, p_, q_ in zip(c[1], x[1], y[1])])
                return None
            if isinstance(x, T) and isinstance(y, T):
                env[ins.res] = mk('select', x.ty, c, x, y)
                return None
            if x == y:
                env[ins.res] = x
                return None
            res = ins.res

            def tk(s, v=x):
                s.frames[-1].env[res] = v

            def fk(s, v=y):
                s.frames[-1].env[res] = v
            return self.fork_branch(st, c, tk, fk)
        if op == 'phi':
            raise Unsupported('phi not at block start')
        if op == 'load':
            ty, (pt, pv), rng = a
            p = self.operand(st, fr, pt, pv)
            if not isinstance(p, Ptr):
                st.ub.append(('load through non-object pointer', repr(p)))
                env[ins.res] = self.fresh_garbage(ty)
                return None
            env[ins.res] = self.load(st, p, ty)
            return None
        if op == 'store':
            (vt, vv), (pt, pv) = a
            v = self.operand(st, fr, vt, vv)
            p = self.operand(st, fr, pt, pv)
            if not isinstance(p, Ptr):
                st.ub.append(('store through non-object pointer', repr(p)))
                return None
            self.store(st, p, vt, v)
            return None
        if op == 'getelementptr':
            bt, (pt, pv), idx, inb = a
            p = self.operand(st, fr, pt, pv)
            ids = [self.operand(st, fr, it, iv) for it, iv in idx]
            if isinstance(p, tuple) and p[0] == 'vec':
                raise Unsupported('vector gep')
            env[ins.res] = self.gep(p, bt, ids)
            return None
        if op == 'alloca':
            ty, n = a
            cnt = 1
            if n is not None:
                nv = self.operand(st, fr, n[0], n[1])
                if not tm.is_ic(nv):
                    raise Unsupported('symbolic alloca size')
                cnt = nv.args[0]
            rid = st.new_region(self.sizeof(ty) * cnt, 'alloca', '%s:%%%s' % (fr.func.name[:40], ins.res))
            fr.allocas.append(rid)
            env[ins.res] = Ptr(rid, 0)
            return None
        if op in ('bitcast', 'zext', 'sext', 'trunc', 'fpext', 'fptrunc', 'sitofp', 'uitofp', 'fptosi', 'fptoui',
                  'ptrtoint', 'inttoptr', 'addrspacecast'):
            (vt, vv), dt = a
            v = self.operand(st, fr, vt, vv)
            env[ins.res] = self.cast(op, v, vt, dt)
            return None
        if op == 'call':
            return self.do_call(st, fr, ins)
        if op == 'br':
            self.jump(st, fr, a[0])
            return None
        if op == 'condbr':
            (ct, cv), la, lb = a
            c = self.operand(st, fr, ct, cv)
            if isinstance(c, T) and not tm.is_ic(c) and c.id not in st.pcset and tm.negate(c).id not in st.pcset \
                    and self.try_merge(st, fr, c, la, lb):
                return None
            return self.fork_branch(st, c, lambda s: self.jump(s, s.frames[-1], la),
                                    lambda s: self.jump(s, s.frames[-1], lb))
        if op == 'switch':
            (vt, vv), dflt, cases = a
            v = self.operand(st, fr, vt, vv)
            if tm.is_ic(v):
                for cv, lbl in cases:
                    if (cv & ((1 << tm.ibits(v.ty)) - 1)) == v.args[0]:
                        self.jump(st, fr, lbl)
                        return None
                self.jump(st, fr, dflt)
                return None
            if not isinstance(v, T):
                raise Unsupported('switch on %r' % (v,))
            out = []
            nots = []
            for cv, lbl in cases:
                s2 = st.clone()
                s2.assume(mk('icmp', 'i1', 'eq', v, ic(v.ty, cv)))
                self.jump(s2, s2.frames[-1], lbl)
                out.append(s2)
                nots.append(mk('icmp', 'i1', 'ne', v, ic(v.ty, cv)))
            for c in nots:
                st.assume(c)
            self.jump(st, fr, dflt)
            out.append(st)
            return out
        if op == 'ret':
            v = None
            if a[0] is not None:
                v = self.operand(st, fr, a[0][0], a[0][1])
            self.do_ret(st, v)
            return None
        if op == 'unreachable':
            st.status = 'unreachable'
            return None
        if op == 'resume':
            self.throw(st, st.extra.get('exc', 'resume'))
            return None
        if op == 'landingpad':
            env[ins.res] = ('agg', [NULL, ic('i32', 0)])
            return None
        if op == 'extractvalue':
            (vt, vv), idx = a
            v = self.operand(st, fr, vt, vv)
            for i in idx:
                if v is UNDEF:
                    break
                v = v[1][i]
            env[ins.res] = v
            return None
        if op == 'insertvalue':
            (vt, vv), (et, ev), idx = a
            v = self.operand(st, fr, vt, vv)
            e = self.operand(st, fr, et, ev)
            if v is UNDEF:
                v = self.undef_value(vt)
            env[ins.res] = self.insert(v, e, idx)
            return None
        if op == 'extractelement':
            (vt, vv), (it, iv) = a
            v = self.operand(st, fr, vt, vv)
            i = self.operand(st, fr, it, iv)
            if not tm.is_ic(i):
                raise Unsupported('symbolic extractelement index')
            env[ins.res] = UNDEF if v is UNDEF else v[1][i.args[0]]
            return None
        if op == 'insertelement':
            (vt, vv), (et, ev), (it, iv) = a
            v = self.operand(st, fr, vt, vv)
            e = self.operand(st, fr, et, ev)
            i = self.operand(st, fr, it, iv)
            if not tm.is_ic(i):
                raise Unsupported('symbolic insertelement index')
            if v is UNDEF:
                v = self.undef_value(vt)
            l = list(v[1])
            l[i.args[0]] = e
            env[ins.res] = ('vec', l)
            return None
        if op == 'shufflevector':
            (t1, v1), (t2, v2), (mt, mv) = a
            x = self.operand(st, fr, t1, v1)
            y = self.operand(st, fr, t2, v2)
            n = self.resolve(t1)[1]
            xs = x[1] if x is not UNDEF else [UNDEF] * n
            ys = y[1] if y is not UNDEF else [UNDEF] * n
            allv = list(xs) + list(ys)
            if mv[0] == 'zero':
                mask = [0] * self.resolve(mt)[1]
            elif mv[0] == 'undef':
                mask = [None] * self.resolve(mt)[1]
            else:
                mask = [(e[1][1] if e[1][0] == 'int' else None) for e in mv[1]]
            env[ins.res] = ('vec', [UNDEF if m is None else allv[m] for m in mask])
            return None
        if op == 'freeze':
            (vt, vv) = a[0]
            v = self.operand(st, fr, vt, vv)
            env[ins.res] = self.fresh_garbage(vt) if v is UNDEF else v
            return None
        raise Unsupported('instruction: %s' % ins.text)

    # ---------------------------------------------------------------- if-conversion of pure triangles/diamonds
    PURE_OPS = set(['fneg', 'icmp', 'fcmp', 'select', 'getelementptr', 'extractvalue', 'insertvalue', 'extractelement',
                    'insertelement', 'shufflevector', 'freeze', 'load', 'bitcast', 'zext', 'sext', 'trunc', 'fpext',
                    'fptrunc', 'sitofp', 'uitofp', 'fptosi', 'fptoui', 'ptrtoint', 'inttoptr']) | tm.COMM | \
        set(['sub', 'shl', 'lshr', 'ashr', 'fsub', 'fdiv', 'frem'])
    PURE_CALLS = ('_ZSt11_Hash_bytesPKvmm', '_ZNKSt4hashIeEclEe')

    def arm_succ(self, fr, lbl):
        """successor label if block lbl is a side-effect free straight-line arm, else None"""
        blk = fr.func.blocks[lbl]
        if not blk or blk[0].op == 'phi' or len(blk) > 40:
            return None
        last = blk[-1]
        if last.op == 'br':
            body, succ = blk[:-1], last.a[0]
        elif last.op == 'call' and last.a[3] is not None:
            body, succ = blk, last.a[3]      # invoke of a pure function: its normal destination
        else:
            return None
        for ins in body:
            if ins.op in self.PURE_OPS:
                continue
            if ins.op == 'call' and ins.a[1][0] == 'glob' and (ins.a[3] is None or ins is last):
                nm = ins.a[1][1]
                if nm in LIBM or nm in self.PURE_CALLS or nm.startswith(IGNORED_INTRINSICS):
                    continue
            return None
        return succ

    def try_merge(self, st, fr, c, la, lb):
        sa = self.arm_succ(fr, la)
        sb = self.arm_succ(fr, lb)
        nc = tm.negate(c)
        if sa is not None and sa == lb:
            arms, join, direct = [(la, c)], lb, nc
        elif sb is not None and sb == la:
            arms, join, direct = [(lb, nc)], la, c
        elif sa is not None and sa == sb:
            arms, join, direct = [(la, c), (lb, nc)], sa, None
        else:
            return False
        snap = st.clone()
        nub = len(st.ub)
        here = fr.block
        try:
            for lbl, cond in arms:
                ab = fr.func.blocks[lbl]
                for ins in (ab[:-1] if ab[-1].op == 'br' else ab):
                    if ins.op == 'call' and ins.a[3] is not None:
                        from .parse import Instr
                        ins = Instr(ins.res, 'call', (ins.a[0], ins.a[1], ins.a[2], None, None), ins.text)
                    r = self.step(st, fr, ins)
                    if r is not None or st.status is not None or len(st.ub) > nub or st.frames[-1] is not fr:
                        raise Unsupported('arm not mergeable')
            jb = fr.func.blocks[join]
            vals = []
            nphi = 0
            for ins in jb:
                if ins.op != 'phi':
                    break
                nphi += 1
                t, inc = ins.a
                got = {}
                for v_, l in inc:
                    if l == here or any(l == lbl for lbl, _ in arms):
                        got[l] = self.operand(st, fr, t, v_)
                parts = []
                for lbl, cond in arms:
                    if lbl not in got:
                        raise Unsupported('phi lacks arm')
                    parts.append((cond, got[lbl]))
                if direct is not None:
                    if here not in got:
                        raise Unsupported('phi lacks direct edge')
                    parts.append((direct, got[here]))
                (c1, v1), (c2, v2) = parts
                if v1 is v2 or (not isinstance(v1, T) and v1 == v2):
                    vals.append((ins.res, v1))
                elif isinstance(v1, T) and isinstance(v2, T):
                    vals.append((ins.res, mk('select', v1.ty, c1, v1, v2)))
                else:
                    raise Unsupported('phi of non-terms')
        except Unsupported:
            st.__dict__.update(snap.__dict__)
            return False
        for r_, v_ in vals:
            fr.env[r_] = v_
        v = fr.visits.get(join, 0) + 1
        if v > MAX_BLOCK_VISITS:
            raise Unsupported('loop bound exceeded at %s' % join)
        fr.visits[join] = v
        fr.prev = arms[-1][0]
        fr.block = join
        fr.ip = nphi
        self.merged = getattr(self, 'merged', 0) + 1
        return True

    def insert(self, v, e, idx):
        if not idx:
            return e
        l = list(v[1])
        sub = l[idx[0]]
        l[idx[0]] = self.insert(sub, e, idx[1:])
        return (v[0], l)

    def ptr_cmp(self, pred, x, y):
        def key(p):
            if isinstance(p, Ptr):
                return ('p', p.region, p.off)
            if isinstance(p, FnPtr):
                return ('f', p.name)
            if tm.is_ic(p) and p.args[0] == 0:
                return ('p', None, 0)
            raise Unsupported('pointer compare with %r' % (p,))
        kx, ky = key(x), key(y)
        if pred == 'eq':
            return ic('i1', 1 if kx == ky else 0)
        if pred == 'ne':
            return ic('i1', 0 if kx == ky else 1)
        if kx[0] == 'p' and ky[0] == 'p' and kx[1] == ky[1]:
            return ic('i1', 1 if tm.ICMP[pred](kx[2], ky[2], kx[2], ky[2]) else 0)
        raise Unsupported('ordered compare of unrelated pointers')

    def cast(self, op, v, st_, dt):
        rdt = self.resolve(dt)
        if op in ('bitcast', 'addrspacecast'):
            if isinstance(v, (Ptr, FnPtr)):
                return v
            if v is UNDEF:
                return UNDEF
            rst = self.resolve(st_)
            if rst[0] == 'vec' or rdt[0] == 'vec':
                # via bits
                if rst[0] == 'vec':
                    parts = [self.to_bits(e) for e in v[1]]
                    bits = parts[0]
                    for p in parts[1:]:
                        bits = mk('concat', 'i%d' % (tm.ibits(bits.ty) + tm.ibits(p.ty)), p, bits)
                else:
                    bits = self.to_bits(v)
                if rdt[0] == 'vec':
                    ew = 8 * self.sizeof(rdt[2])
                    et = self.tt(rdt[2])
                    return ('vec', [self.from_bits(mk('extract', 'i%d' % ew, ew * (i + 1) - 1, ew * i, bits), et)
                                    for i in range(rdt[1])])
                return self.from_bits(bits, self.tt(rdt))
            return mk('bitcast', self.tt(rdt), v)
        if op == 'ptrtoint':
            if isinstance(v, Ptr) and v.region is None:
                return ic(self.tt(rdt), v.off)
            return ('ptrint', v)
        if op == 'inttoptr':
            if isinstance(v, tuple) and v[0] == 'ptrint':
                return v[1]
            if tm.is_ic(v):
                return Ptr(None, v.args[0])
            raise Unsupported('inttoptr of symbolic')
        if v is UNDEF:
            return UNDEF
        if isinstance(v, tuple) and v[0] == 'vec':
            return ('vec', [self.cast(op, e, self.resolve(st_)[2], rdt[2]) for e in v[1]])
        if not isinstance(v, T):
            raise Unsupported('cast %s of %r' % (op, v))
        return mk(op, self.tt(rdt), v)

    # ---------------------------------------------------------------- calls
    def do_call(self, st, fr, ins):
        ret, callee, args, normal, unwind = ins.a
        if callee[0] == 'glob':
            target = self.global_ptr(st, callee[1]) if callee[1] in self.mod.functions or callee[1] in self.mod.globals \
                else FnPtr(callee[1])
        elif callee[0] == 'loc':
            target = fr.env[callee[1]]
        elif callee[0] == 'cexpr':
            target = self.const_expr(st, callee)
        else:
            raise Unsupported('callee %r' % (callee,))
        if not isinstance(target, FnPtr):
            st.ub.append(('call through non-function pointer', repr(target)))
            st.status = 'ub-call'
            return None
        name = target.name
        argv = [self.operand(st, fr, t, v) for t, v in args]
        # summaries first
        sm = self.find_summary(name)
        if sm is not None:
            self.stubs_hit.add(name)
            r = sm(self, st, fr, ins, name, argv)
            if isinstance(r, list):   # forked states, each already advanced
                return r
            if ins.res is not None:
                fr.env[ins.res] = r
            if normal is not None:
                self.jump(st, fr, normal)
            return None
        if name.startswith('llvm.'):
            r = self.intrinsic(st, fr, ins, name, argv, args)
            if ins.res is not None:
                fr.env[ins.res] = r
            if normal is not None:
                self.jump(st, fr, normal)
            return None
        f = self.mod.functions.get(name)
        if f is not None and not f.declared:
            if len(st.frames) >= MAX_DEPTH:
                raise Unsupported('call depth')
            nf = Frame(f, {pn: av for (pt, pn), av in zip(f.params, argv)})
            nf.dst = ins.res
            nf.normal = normal
            nf.unwind = unwind
            st.frames.append(nf)
            self.functions_entered.add(name)
            return None
        if name in LIBM:
            self.stubs_hit.add(name)
            t = self.tt(ret)
            r = self.libm(LIBM[name], t, argv)
            if ins.res is not None:
                fr.env[ins.res] = r
            if normal is not None:
                self.jump(st, fr, normal)
            return None
        raise Unsupported('call to external %s' % name)

    def find_summary(self, name):
        s = self.summaries.get(name)
        if s is not None:
            return s
        for pat, fn in self.summaries.get('__patterns__', ()):
            if pat(name):
                return fn
        return None

    def libm(self, fn, t, argv):
        if fn == 'fabs':
            return mk('call', t, 'fabs', argv[0])
        if fn == 'pow' and argv[1].op == 'fc' and argv[1].args[0] == 2:
            return mk('fmul', t, argv[0], argv[0])
        return mk('call', t, fn, *argv)

    def intrinsic(self, st, fr, ins, name, argv, args):
        if name.startswith(IGNORED_INTRINSICS):
            return None
        if name.startswith('llvm.memcpy') or name.startswith('llvm.memmove'):
            n = argv[2]
            if not tm.is_ic(n):
                raise Unsupported('symbolic memcpy length')
            self.memcpy(st, argv[0], argv[1], n.args[0])
            return None
        if name.startswith('llvm.memset'):
            n = argv[2]
            if not tm.is_ic(n) or not tm.is_ic(argv[1]):
                raise Unsupported('symbolic memset')
            self.memset(st, argv[0], argv[1], n.args[0])
            return None
        if name in LIBM:
            self.stubs_hit.add(name)
            t = self.tt(ins.a[0])
            return self.libm(LIBM[name], t, argv)
        if name.startswith('llvm.fmuladd') or name.startswith('llvm.fma.'):
            raise Unsupported('fused multiply-add present (compile with -ffp-contract=off)')
        if name.startswith('llvm.expect'):
            return argv[0]
        if name.startswith('llvm.umax') or name.startswith('llvm.umin') or name.startswith('llvm.smax') or name.startswith('llvm.smin'):
            k = name[5:9]
            pred = {'umax': 'ugt', 'umin': 'ult', 'smax': 'sgt', 'smin': 'slt'}[k]
            c = mk('icmp', 'i1', pred, argv[0], argv[1])
            return mk('select', argv[0].ty, c, argv[0], argv[1])
        if name.startswith('llvm.abs.'):
            c = mk('icmp', 'i1', 'slt', argv[0], ic(argv[0].ty, 0))
            return mk('select', argv[0].ty, c, mk('sub', argv[0].ty, ic(argv[0].ty, 0), argv[0]), argv[0])
        if name.startswith('llvm.trap'):
            st.status = 'trap'
            return None
        if name.startswith('llvm.is.constant'):
            return ic('i1', 0)
        if name.startswith('llvm.objectsize'):
            return ic('i64', (1 << 64) - 1)
        raise Unsupported('intrinsic %s' % name)
