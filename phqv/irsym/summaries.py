"""Summaries (stubs) for library functions that are not executed: every entry is part of the claim.

A summary has the signature  f(executor, state, frame, instr, name, argv) -> value | list-of-forked-states
"""
from .. import terms as tm
from ..terms import mk, ic
from .exec import Ptr, FnPtr, Unsupported, NULL, UNDEF


def hash_bytes(ex, st, fr, ins, name, argv):
    """std::_Hash_bytes(ptr, len, seed): uninterpreted function of the bytes and the seed"""
    p, n, seed = argv
    if not tm.is_ic(n):
        raise Unsupported('_Hash_bytes with symbolic length')
    reg = ex.check_access(st, p, n.args[0], '_Hash_bytes read')
    if reg is None:
        return ex.fresh_garbage(('int', 64))
    bits = ex.read_bits(st, reg, p.off, n.args[0])
    if bits is None:
        st.ub.append(('read of uninitialised memory', '_Hash_bytes'))
        return ex.fresh_garbage(('int', 64))
    return mk('call', 'i64', 'hashbytes', bits, seed)


def hash_long_double(ex, st, fr, ins, name, argv):
    """std::hash<long double>::operator() lives in libstdc++.so: 0 for +-0, otherwise an uninterpreted function of
    the value (libstdc++'s documented behaviour; assumption)"""
    x = argv[1]
    z = mk('fcmp', 'i1', 'oeq', x, tm.fc('f80', 0))
    return mk('select', 'i64', z, ic('i64', 0), mk('call', 'i64', 'hashld', x))


BASE = {
    '_ZSt11_Hash_bytesPKvmm': hash_bytes,
    '_ZNKSt4hashIeEclEe': hash_long_double,
}


def base():
    return dict(BASE)


# ------------------------------------------------------------------------------------ std::map / std::function
import re as _re

NODE_HDR = 32      # sizeof(std::_Rb_tree_node_base) on x86-64 libstdc++


def _tables(st):
    return st.extra.setdefault('tables', {})


def _pair_type(ex, fname):
    f = ex.mod.functions.get(fname)
    if f is None:
        raise Unsupported('no declaration of %s' % fname)
    t = f.params[1][0]
    if t[0] != 'ptr':
        raise Unsupported('initializer_list parameter of %s is not a pointer' % fname)
    return t[1]


def map_ctor_il(ex, st, fr, ins, name, argv):
    """std::map<K,V>::map(initializer_list<pair<const K,V>>, const Compare&, const Alloc&): an abstract table whose
    nodes are laid out like libstdc++'s _Rb_tree_node (32-byte header, value at +32); first key wins"""
    this, ilp, iln = argv[0], argv[1], argv[2]
    if not tm.is_ic(iln):
        raise Unsupported('symbolic initializer_list length')
    pty = _pair_type(ex, name)
    stride = ex.sizeof(pty)
    kty = ex.resolve(pty)[2][0]
    entries = []
    seen = set()
    for i in range(iln.args[0]):
        src = Ptr(ilp.region, ilp.off + i * stride)
        key = ex.load(st, src, kty)
        if not tm.is_ic(key):
            raise Unsupported('non-constant key in table initialiser')
        if key.args[0] in seen:
            continue
        seen.add(key.args[0])
        rid = st.new_region(NODE_HDR + stride, 'heap', 'map-node')
        ex.memcpy(st, Ptr(rid, NODE_HDR), src, stride)
        entries.append((key.args[0], rid))
    tb = dict(_tables(st))
    tb[(this.region, this.off)] = {'kind': 'map', 'pair': pty, 'key_ty': kty, 'entries': entries, 'name': st.regions[this.region].name}
    st.extra['tables'] = tb
    st.events.append(('table-init', st.regions[this.region].name, len(entries)))
    return None


def _lookup(ex, st, fr, ins, name, argv, on_hit, on_miss):
    this, kp = argv[0], argv[1]
    tb = _tables(st).get((this.region, this.off))
    if tb is None:
        # the table's dynamic initialiser has not run: this is what a static-initialisation-order bug looks like
        st.ub.append(('lookup in a table before its dynamic initialisation', st.regions[this.region].name))
        st.status = 'uninitialised-table'
        return None
    key = ex.load(st, kp, tb['key_ty'])
    st.events.append(('lookup', tb['name'], key))
    if isinstance(key, tm.T) and key.id in st.pinned:
        key = st.pinned[key.id]
    if tm.is_ic(key):
        for k, rid in tb['entries']:
            if k == key.args[0]:
                return on_hit(st, rid, tb)
        return on_miss(st, this, tb)
    if not isinstance(key, tm.T):
        raise Unsupported('table key %r' % (key,))
    # symbolic key: one successor state per entry plus the miss
    out = []
    res = ins.res
    normal = ins.a[3]
    pending = []
    for k, rid in tb['entries']:
        eq = mk('icmp', 'i1', 'eq', key, ic(key.ty, k))
        ne = tm.negate(eq)
        if ne.id in st.pcset or (tm.is_ic(eq) and eq.args[0] == 0):
            continue
        pending.append((eq, ne, rid))
    for eq, ne, rid in pending:
        s2 = st.clone()
        s2.assume(eq)
        v = on_hit(s2, rid, tb)
        _finish(ex, s2, res, v, normal)
        out.append(s2)
    for eq, ne, rid in pending:
        st.assume(ne)
    v = on_miss(st, this, tb)
    _finish(ex, st, res, v, normal)
    out.append(st)
    return out


def _finish(ex, s, res, v, normal):
    if s.status is not None:
        return
    f2 = s.frames[-1]
    if res is not None:
        f2.env[res] = v
    if normal is not None:
        ex.jump(s, f2, normal)


def map_find(ex, st, fr, ins, name, argv):
    return _lookup(ex, st, fr, ins, name, argv,
                   lambda s, rid, tb: Ptr(rid, 0),
                   lambda s, this, tb: Ptr(this.region, this.off + 8))      # end(): &_M_impl._M_header


def map_at(ex, st, fr, ins, name, argv):
    def hit(s, rid, tb):
        offs, _ = ex.layout(tb['pair'])
        return Ptr(rid, NODE_HDR + offs[1])

    def miss(s, this, tb):
        ex.throw(s, 'std::out_of_range', ins, tb['name'])
        return None
    return _lookup(ex, st, fr, ins, name, argv, hit, miss)


def noop(ex, st, fr, ins, name, argv):
    return None


def throw_bad_function_call(ex, st, fr, ins, name, argv):
    ex.throw(st, 'std::bad_function_call', ins)
    return [st]


def thrower(what):
    def f(ex, st, fr, ins, name, argv):
        ex.throw(st, what, ins)
        return [st]
    return f


def begin_catch(ex, st, fr, ins, name, argv):
    st.events.append(('caught', st.extra.get('exc')))
    st.extra['exc'] = None
    return NULL


THROWERS = {
    '_ZSt24__throw_out_of_range_fmtPKcz': 'std::out_of_range',
    '_ZSt20__throw_out_of_rangePKc': 'std::out_of_range',
    '_ZSt24__throw_invalid_argumentPKc': 'std::invalid_argument',
    '_ZSt20__throw_length_errorPKc': 'std::length_error',
    '_ZSt19__throw_logic_errorPKc': 'std::logic_error',
    '_ZSt25__throw_bad_function_callv': 'std::bad_function_call',
    '_ZSt21__throw_bad_exceptionv': 'std::bad_exception',
    '_ZSt27__throw_bad_optional_accessv': 'std::bad_optional_access',
    '_ZSt28__throw_bad_array_new_lengthv': 'std::bad_array_new_length',
    '_ZSt16__throw_bad_castv': 'std::bad_cast',
    '_ZSt21__throw_runtime_errorPKc': 'std::runtime_error',
    '_ZSt20__throw_domain_errorPKc': 'std::domain_error',
    '_ZSt22__throw_overflow_errorPKc': 'std::overflow_error',
    '__cxa_throw': 'exception',
    '__cxa_rethrow': 'exception',
}


def is_map_ctor(n):
    return n.startswith('_ZNSt3mapI') and ('EC2ESt16initializer_listI' in n or 'EC1ESt16initializer_listI' in n)


def is_map_find(n):
    return (n.startswith('_ZNKSt3mapI') or n.startswith('_ZNSt3mapI')) and _re.search(r'E4findERS', n) is not None


def is_map_at(n):
    return (n.startswith('_ZNKSt3mapI') or n.startswith('_ZNSt3mapI')) and _re.search(r'E2atERS', n) is not None


def containers():
    d = base()
    d['__cxa_atexit'] = lambda ex, st, fr, ins, name, argv: ic('i32', 0)
    for n_, what in THROWERS.items():
        d[n_] = thrower(what)
    d['_ZSt25__throw_bad_function_callv'] = throw_bad_function_call
    d['__cxa_begin_catch'] = begin_catch
    d['__cxa_end_catch'] = noop
    d['__cxa_guard_acquire'] = lambda ex, st, fr, ins, name, argv: ic('i32', 1)
    d['__cxa_guard_release'] = noop
    d['__cxa_guard_abort'] = noop
    d['_ZNSt8ios_base4InitC1Ev'] = noop
    d['_ZNSt8ios_base4InitD1Ev'] = noop
    d['__patterns__'] = [(is_map_ctor, map_ctor_il), (is_map_find, map_find), (is_map_at, map_at)]
    return d


def run_initialisers(ex, st, wanted=None):
    """execute the dynamic initialisers (llvm.global_ctors order) of the namespace-scope tables; wanted = set of
    global names (None = all tables whose initialiser is in the module)"""
    done = []
    for prio, fn, data in ex.mod.ctors:
        if fn is None:
            continue
        if wanted is not None and data not in wanted:
            continue
        if data is None and wanted is not None:
            continue
        f = ex.mod.functions.get(fn)
        if f is None or f.declared:
            continue
        snap = st.clone()
        try:
            sub = ex.run(fn, [], st)
            if len(sub) != 1 or sub[0].status != 'ret':
                raise Unsupported('initialiser %s did not run to a single normal return (%s)' % (fn, [s.status for s in sub]))
        except Unsupported as e:
            if wanted is not None:
                raise
            st = snap
            st.events.append(('initialiser-skipped', data, str(e)[:120]))
            continue
        st = sub[0]
        st.status = None
        st.ret = None
        done.append(data)
    return st, done


# ------------------------------------------------------------------------------------ heap
def op_new(ex, st, fr, ins, name, argv):
    n = argv[0]
    if not tm.is_ic(n):
        raise Unsupported('operator new with symbolic size')
    rid = st.new_region(n.args[0], 'heap', 'new(%d)' % n.args[0])
    return Ptr(rid, 0)


def op_delete(ex, st, fr, ins, name, argv):
    p = argv[0]
    if isinstance(p, Ptr) and p.region is not None:
        r = st.regions[p.region]
        if r.kind != 'heap' or p.off != 0:
            st.ub.append(('delete of a pointer not obtained from new', r.name))
        elif not r.alive:
            st.ub.append(('double delete', r.name))
        st.wreg(p.region).alive = False
    return None


def throw_length_error(ex, st, fr, ins, name, argv):
    ex.throw(st, 'std::length_error', ins)
    return [st]


def heap():
    return {'_Znwm': op_new, '_Znam': op_new, '_ZdlPv': op_delete, '_ZdaPv': op_delete, '_ZdlPvm': op_delete,
            '_ZSt20__throw_length_errorPKc': throw_length_error,
            '_ZSt28__throw_bad_array_new_lengthv': throw_length_error, '_ZSt17__throw_bad_allocv': throw_length_error}


# ------------------------------------------------------------------------------------ std::unordered_map<string_view, E>
UNODE_VAL = 8      # _Hash_node: next pointer, then the value


def _sv_bytes(ex, st, p):
    from . import strings as SS
    return SS.sv_at(ex, st, p)


def umap_ctor_il(ex, st, fr, ins, name, argv):
    this, ilp, iln = argv[0], argv[1], argv[2]
    if not tm.is_ic(iln):
        raise Unsupported('symbolic initializer_list length')
    pty = _pair_type(ex, name)
    stride = ex.sizeof(pty)
    entries = []
    seen = set()
    for i in range(iln.args[0]):
        src = Ptr(ilp.region, ilp.off + i * stride)
        key = _sv_bytes(ex, st, src)
        if key in seen:
            continue
        seen.add(key)
        rid = st.new_region(UNODE_VAL + stride + 8, 'heap', 'umap-node')
        ex.memcpy(st, Ptr(rid, UNODE_VAL), src, stride)
        entries.append((key, rid))
    tb = dict(_tables(st))
    tb[(this.region, this.off)] = {'kind': 'umap', 'pair': pty, 'entries': entries, 'name': st.regions[this.region].name}
    st.extra['tables'] = tb
    st.events.append(('table-init', st.regions[this.region].name, len(entries)))
    return None


def any_string(ex, st, fr, ins, name, argv):
    """phqv_any_string(): a string_view denoting an ARBITRARY byte string (any length, any bytes, embedded NUL
    included).  Its only observable use is as a key of std::unordered_map::find, whose summary forks into
    'equals spelling i' for every entry and 'equals none of them'."""
    rid = st.new_region(1 << 20, 'arg', 'any-string')
    n = tm.arg('i64', 'anylen')
    r = ins.a[0]
    return ('agg', [n, Ptr(rid, 0)])


def umap_find(ex, st, fr, ins, name, argv):
    this, kp = argv[0], argv[1]
    tb = _tables(st).get((this.region, this.off))
    if tb is None:
        st.ub.append(('lookup in a table before its dynamic initialisation', st.regions[this.region].name))
        st.status = 'uninitialised-table'
        return None
    q = ex.load(st, Ptr(kp.region, kp.off + 8), ('ptr', ('int', 8)))
    if isinstance(q, Ptr) and q.region is not None and st.regions[q.region].name == 'any-string':
        pend = st.extra.get('anystr')
        if pend is not None:
            # the arbitrary string was already compared: stay on the same case
            k = pend
            if k is None:
                return NULL
            for key, rid in tb['entries']:
                if key == k:
                    return Ptr(rid, 0)
            return NULL
        out = []
        res, normal = ins.res, ins.a[3]
        for key, rid in tb['entries']:
            s2 = st.clone()
            s2.extra['anystr'] = key
            s2.events.append(('any-string-is', key))
            _finish(ex, s2, res, Ptr(rid, 0), normal)
            out.append(s2)
        st.extra['anystr'] = None
        st.events.append(('any-string-is', None))
        _finish(ex, st, res, NULL, normal)
        out.append(st)
        return out
    n = ex.load(st, kp, ('int', 64))
    if tm.is_ic(n) and isinstance(q, Ptr) and q.region is not None:
        bs = [ex.load(st, Ptr(q.region, q.off + i), ('int', 8)) for i in range(n.args[0])]
        bs = [st.pinned.get(b.id, b) if isinstance(b, tm.T) else b for b in bs]
        if any(not tm.is_ic(b) for b in bs):
            # a string of known length with symbolic bytes: one successor per spelling of that length, plus the miss
            if not all(isinstance(b, tm.T) for b in bs):
                raise Unsupported('string key with non-term bytes')
            out = []
            res, normal = ins.res, ins.a[3]
            neqs = []
            for key, rid in tb['entries']:
                if len(key) != len(bs):
                    continue
                eq = ic('i1', 1)
                for b, c in zip(bs, key):
                    e1 = mk('icmp', 'i1', 'eq', b, ic('i8', c if c < 128 else c - 256))
                    eq = e1 if (tm.is_ic(eq) and eq.args[0] == 1) else mk('and', 'i1', eq, e1)
                if tm.is_ic(eq) and eq.args[0] == 0:
                    continue
                s2 = st.clone()
                s2.assume(eq)
                s2.events.append(('lookup-hit', tb['name'], key))
                _finish(ex, s2, res, Ptr(rid, 0), normal)
                out.append(s2)
                neqs.append(tm.negate(eq))
            for ne in neqs:
                st.assume(ne)
            st.events.append(('lookup-miss', tb['name'], None))
            _finish(ex, st, res, NULL, normal)
            out.append(st)
            return out
    key = _sv_bytes(ex, st, kp)
    st.events.append(('lookup', tb['name'], key))
    for k, rid in tb['entries']:
        if k == key:
            return Ptr(rid, 0)
    return NULL


def memchr_(ex, st, fr, ins, name, argv):
    """memchr(hay, c, n) with a concrete length: forks on the first position whose byte equals (unsigned char)c"""
    hay, c, n = argv[0], argv[1], argv[2]
    if not tm.is_ic(n) or not isinstance(hay, Ptr) or hay.region is None:
        raise Unsupported('memchr with symbolic length or pointer')
    c8 = mk('trunc', 'i8', c) if isinstance(c, tm.T) and c.ty != 'i8' else c
    bs = [ex.load(st, Ptr(hay.region, hay.off + i), ('int', 8)) for i in range(n.args[0])]
    res, normal = ins.res, ins.a[3]
    out = []
    cur = st
    for i, b in enumerate(bs):
        eq = mk('icmp', 'i1', 'eq', b, c8)
        if tm.is_ic(eq):
            if eq.args[0] == 1:
                _finish(ex, cur, res, Ptr(hay.region, hay.off + i), normal)
                out.append(cur)
                return out
            continue
        ne = tm.negate(eq)
        if ne.id in cur.pcset:
            continue
        if eq.id in cur.pcset:
            _finish(ex, cur, res, Ptr(hay.region, hay.off + i), normal)
            out.append(cur)
            return out
        s2 = cur.clone()
        s2.assume(eq)
        _finish(ex, s2, res, Ptr(hay.region, hay.off + i), normal)
        out.append(s2)
        cur.assume(ne)
    _finish(ex, cur, res, NULL, normal)
    out.append(cur)
    return out


def memcmp_(ex, st, fr, ins, name, argv):
    """memcmp(a, b, n) with a concrete length: forks on the first position at which the bytes differ (result = difference
    of the two bytes as unsigned char) and the all-equal case (0)"""
    a, b, n = argv[0], argv[1], argv[2]
    if not tm.is_ic(n) or not isinstance(a, Ptr) or a.region is None or not isinstance(b, Ptr) or b.region is None:
        raise Unsupported('memcmp with symbolic length or pointer')
    k = n.args[0]
    if k > 64:
        raise Unsupported('memcmp of %d bytes' % k)
    res, normal = ins.res, ins.a[3]
    out = []
    cur = st
    for i in range(k):
        x = ex.load(cur, Ptr(a.region, a.off + i), ('int', 8))
        y = ex.load(cur, Ptr(b.region, b.off + i), ('int', 8))
        ne = mk('icmp', 'i1', 'ne', x, y)
        if tm.is_ic(ne):
            if ne.args[0] == 1:
                _finish(ex, cur, res, mk('sub', 'i32', mk('zext', 'i32', x), mk('zext', 'i32', y)), normal)
                out.append(cur)
                return out
            continue
        s2 = cur.clone()
        if s2.assume(ne) is not False:
            _finish(ex, s2, res, mk('sub', 'i32', mk('zext', 'i32', x), mk('zext', 'i32', y)), normal)
            out.append(s2)
        if cur.assume(tm.negate(ne)) is False:
            return out
    _finish(ex, cur, res, tm.ic('i32', 0), normal)
    out.append(cur)
    return out


def arbitrary_string(ex, st, fr, ins, name, argv):
    """phqv_arbitrary_string(): reference to a std::string with arbitrary contents (only passed on to summarised
    functions whose contract does not depend on a particular content)"""
    rid = st.new_region(32, 'arg', 'arbitrary-std-string')
    return Ptr(rid, 0)


def sto_float(ty):
    """std::stof / stod / stold per their documented contract: the converted value (any value of the type), or
    std::invalid_argument (no conversion could be performed), or std::out_of_range (value out of the type's range)"""
    def f(ex, st, fr, ins, name, argv):
        res, normal = ins.res, ins.a[3]
        k = st.extra.get('sto_calls', 0)
        out = []
        for what in ('std::invalid_argument', 'std::out_of_range'):
            s2 = st.clone()
            s2.extra['sto_calls'] = k + 1
            ex.throw(s2, what, ins, name)
            out.append(s2)
        st.extra['sto_calls'] = k + 1
        st.events.append(('sto', ty, k))
        _finish(ex, st, res, tm.arg(ty, 'parsed%d' % k), normal)
        out.append(st)
        return out
    return f


def is_sto(n):
    m = _re.match(r'^_ZNSt7__cxx11(4stof|4stod|5stold)ERKNS_12basic_string', n)
    return m.group(1)[1:] if m else None


def map_ctor_default(ex, st, fr, ins, name, argv):
    """std::map() / std::unordered_map(): an empty table"""
    this = argv[0]
    tb = dict(_tables(st))
    tb[(this.region, this.off)] = {'kind': 'map', 'pair': None, 'key_ty': ('int', 8), 'entries': [], 'name': st.regions[this.region].name}
    st.extra['tables'] = tb
    st.events.append(('table-init', st.regions[this.region].name, 0))
    return None


def is_map_default_ctor(n):
    return (n.startswith('_ZNSt3mapI') or n.startswith('_ZNSt13unordered_mapI')) and (n.endswith('EC2Ev') or n.endswith('EC1Ev'))


def is_umap_ctor(n):
    return n.startswith('_ZNSt13unordered_mapI') and 'ESt16initializer_listI' in n and ('EC2E' in n or 'EC1E' in n)


def is_umap_find(n):
    return (n.startswith('_ZNKSt13unordered_mapI') or n.startswith('_ZNSt13unordered_mapI')) and _re.search(r'E4findER', n) is not None


_containers0 = containers


def containers():
    d = _containers0()
    d['__patterns__'] = d['__patterns__'] + [(is_umap_ctor, umap_ctor_il), (is_umap_find, umap_find), (is_map_default_ctor, map_ctor_default)]
    d['phqv_any_string'] = any_string
    d['phqv_arbitrary_string'] = arbitrary_string
    d['memchr'] = memchr_
    d['memcmp'] = memcmp_
    d['bcmp'] = memcmp_
    d['__patterns__'] = d['__patterns__'] + [(lambda n: is_sto(n) == 'stof', sto_float('f32')), (lambda n: is_sto(n) == 'stod', sto_float('f64')),
                                             (lambda n: is_sto(n) == 'stold', sto_float('f80'))]
    return d
