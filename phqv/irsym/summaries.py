"""Summaries (stubs) for library functions that are not executed: every entry is part of the claim.

A summary has the signature  f(executor, state, frame, instr, name, argv) -> value | list-of-forked-states
"""
from .. import terms as tm
from ..terms import mk, ic
from .exec import Ptr, FnPtr, Unsupported, NULL, UNDEF


def hash_bytes(ex, st, fr, ins, name, argv):
    """std::_Hash_bytes(ptr, len, seed): uninterpreted function of the bytes and the seed"""
    p, n, seed = argv
    if not tm.is_ic(n):
        raise Unsupported('_Hash_bytes with symbolic length')
    reg = ex.check_access(st, p, n.args[0], '_Hash_bytes read')
    if reg is None:
        return ex.fresh_garbage(('int', 64))
    bits = ex.read_bits(st, reg, p.off, n.args[0])
    if bits is None:
        st.ub.append(('read of uninitialised memory', '_Hash_bytes'))
        return ex.fresh_garbage(('int', 64))
    return mk('call', 'i64', 'hashbytes', bits, seed)


def hash_long_double(ex, st, fr, ins, name, argv):
    """std::hash<long double>::operator() lives in libstdc++.so: 0 for +-0, otherwise an uninterpreted function of
    the value (libstdc++'s documented behaviour; assumption)"""
    x = argv[1]
    z = mk('fcmp', 'i1', 'oeq', x, tm.fc('f80', 0))
    return mk('select', 'i64', z, ic('i64', 0), mk('call', 'i64', 'hashld', x))


BASE = {
    '_ZSt11_Hash_bytesPKvmm': hash_bytes,
    '_ZNKSt4hashIeEclEe': hash_long_double,
}


def base():
    return dict(BASE)
