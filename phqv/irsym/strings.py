"""Summaries for std::string / std::ostringstream / std::to_string (libstdc++), keyed by demangled name.

A std::string object is not modelled byte-wise: a side table maps the object's address to a tuple of PIECES
    bytes                       concrete characters
    ('tostr', term)             std::to_string of a symbolic int
    ('fmt', notation, precision, ty, term)   a floating-point insertion into a stream with the given flags
    ('print', ty, term)         PhQ::Print<T>(value), kept uninterpreted when summarise_print is on
    ('fmtint', term)            integer insertion into a stream
The functions summarised here are listed in evidence as stubs; anything else from libstdc++ that is reached makes the
obligation inconclusive.
"""
import re, subprocess
from .. import terms as tm
from ..terms import mk, ic
from .exec import Ptr, FnPtr, Unsupported, NULL, UNDEF

_dem_cache = {}


def demangle_all(mod):
    key = id(mod)
    if key in _dem_cache:
        return _dem_cache[key]
    names = [n for n in mod.functions if n.startswith('_Z')]
    out = {}
    if names:
        p = subprocess.run(['c++filt'], input='\n'.join(names).encode(), stdout=subprocess.PIPE)
        for n, d in zip(names, p.stdout.decode('utf-8', 'replace').split('\n')):
            out[n] = d
    _dem_cache[key] = out
    return out


STR = r'std::__cxx11::basic_string<char, std::char_traits<char>, std::allocator<char> >'
SV = r'std::basic_string_view<char, std::char_traits<char> >'
OS = r'std::basic_ostream<char, std::char_traits<char> >'
OSS = r'std::__cxx11::basic_ostringstream<char, std::char_traits<char>, std::allocator<char> >'


def _S(st):
    return st.extra.get('strings', {})


def _set(st, p, pieces):
    d = dict(_S(st))
    d[(p.region, p.off)] = tuple(pieces)
    st.extra['strings'] = d


def _get(st, p, what='string'):
    if not isinstance(p, Ptr):
        raise Unsupported('%s through %r' % (what, p))
    v = _S(st).get((p.region, p.off))
    if v is None:
        st.ub.append(('use of a std::string that was never constructed (or already destroyed)', ''))
        return ()
    return v


def norm(pieces):
    out = []
    for x in pieces:
        if isinstance(x, bytes):
            if not x:
                continue
            if out and isinstance(out[-1], bytes):
                out[-1] = out[-1] + x
                continue
        out.append(x)
    return tuple(out)


def cstr(ex, st, p):
    """bytes of a NUL-terminated constant string"""
    if not isinstance(p, Ptr) or p.region is None:
        raise Unsupported('C string through %r' % (p,))
    reg = st.regions[p.region]
    out = bytearray()
    o = p.off
    while True:
        c = reg.cells.get(o)
        if c is None or not tm.is_ic(c[2]) or c[0] != 1:
            raise Unsupported('C string is not concrete bytes')
        if c[2].args[0] == 0:
            return bytes(out)
        out.append(c[2].args[0])
        o += 1
        if len(out) > 4096:
            raise Unsupported('C string too long')


def nbytes(ex, st, p, n):
    if not tm.is_ic(n):
        raise Unsupported('string length is symbolic')
    k = n.args[0]
    if k == 0:
        return b''
    if not isinstance(p, Ptr) or p.region is None:
        raise Unsupported('string data through %r' % (p,))
    reg = st.regions[p.region]
    out = bytearray()
    for o in range(p.off, p.off + k):
        c = reg.cells.get(o)
        if c is None or not tm.is_ic(c[2]) or c[0] != 1:
            raise Unsupported('string data is not concrete bytes')
        out.append(c[2].args[0])
    return bytes(out)


def sv_at(ex, st, p):
    """string_view object in memory {size_t len; const char* ptr}"""
    n = ex.load(st, p, ('int', 64))
    q = ex.load(st, Ptr(p.region, p.off + 8), ('ptr', ('int', 8)))
    return nbytes(ex, st, q, n)


# ---------------------------------------------------------------------------------------- std::string
def s_default(ex, st, fr, ins, name, argv):
    _set(st, argv[0], ())


def s_copy(ex, st, fr, ins, name, argv):
    _set(st, argv[0], _get(st, argv[1]))


def s_move(ex, st, fr, ins, name, argv):
    v = _get(st, argv[1])
    _set(st, argv[0], v)
    _set(st, argv[1], ())


def s_from_cstr(ex, st, fr, ins, name, argv):
    p = argv[1]
    info = st.extra.get('snprintf_bufs', {}).get((p.region, p.off)) if isinstance(p, Ptr) else None
    if info is not None:
        # the NUL-terminated output of an earlier snprintf into this buffer: complete when the length fits, silently
        # truncated to size - 1 characters otherwise (C semantics); one successor state for each case
        notation, prec, x, size, r = info
        fits = tm.mk('icmp', 'i1', 'slt', r, tm.ic('i32', size))
        res, normal = ins.res, ins.a[3]
        out = []
        for cond, trunc in ((fits, False), (tm.negate(fits), True)):
            if tm.is_ic(cond) and cond.args[0] == 0:
                continue
            s2 = st.clone()
            s2.assume(cond)
            piece = ('fmt', notation, prec, x.ty, x)
            if trunc:
                _set(s2, argv[0], (('truncated', size - 1, piece),))
                s2.events.append(('insert-truncated', notation, prec, x.ty, x, size - 1))
            else:
                _set(s2, argv[0], (piece,))
                s2.events.append(('insert', notation, prec, x.ty, x))
            f2 = s2.frames[-1]
            if normal is not None:
                ex.jump(s2, f2, normal)
            out.append(s2)
        return out
    _set(st, argv[0], norm([cstr(ex, st, p)]))


def s_from_ptr_len(ex, st, fr, ins, name, argv):
    p, n = argv[1], argv[2]
    if isinstance(n, tm.T) and not tm.is_ic(n) and isinstance(p, Ptr) and p.region is not None:
        # std::string(ptr, n) with a symbolic length (e.g. the return value of snprintf): reads n bytes from the object;
        # the path on which n exceeds the object ends in an out-of-bounds read, the other continues with opaque content
        room = st.regions[p.region].size - p.off
        over = tm.mk('icmp', 'i1', 'ugt', n, tm.ic(n.ty, room))
        s2 = st.clone()
        s2.assume(over)
        s2.ub.append(('load out of bounds', 'std::string(ptr, n) reads n > %d bytes from %s (size %d)' % (room, st.regions[p.region].name, st.regions[p.region].size)))
        s2.status = 'ub-out-of-bounds'
        st.assume(tm.negate(over))
        _set(st, argv[0], (('raw', st.regions[p.region].name, n),))
        res, normal = ins.res, ins.a[3]
        f2 = st.frames[-1]
        if normal is not None:
            ex.jump(st, f2, normal)
        return [st, s2]
    try:
        _set(st, argv[0], norm([nbytes(ex, st, p, n)]))
    except Unsupported:
        if not (tm.is_ic(n) and isinstance(p, Ptr) and p.region is not None):
            raise
        # concrete length, symbolic bytes: the characters live in a fresh region (NUL-terminated, as libstdc++ keeps them)
        L = n.args[0]
        if p.off + L > st.regions[p.region].size:
            st.ub.append(('load out of bounds', 'std::string(ptr, %d) reads beyond %s' % (L, st.regions[p.region].name)))
        bs = [ex.load(st, Ptr(p.region, p.off + i), ('int', 8)) for i in range(L)]
        _set(st, argv[0], (_mem_piece(ex, st, bs),))


def _mem_piece(ex, st, byte_terms):
    rid = st.new_region(len(byte_terms) + 1, 'heap', 'std-string-data')
    reg = st.wreg(rid)
    for i, b in enumerate(byte_terms):
        reg.cells[i] = (1, 'i8', b)
    reg.cells[len(byte_terms)] = (1, 'i8', ic('i8', 0))
    return ('mem', rid, len(byte_terms))


def _materialise(ex, st, p):
    """(region, length) of the characters of the std::string at p; only for strings whose content is concrete bytes or
    one block of symbolic bytes"""
    v = _get(st, p)
    if len(v) == 1 and isinstance(v[0], tuple) and v[0][0] == 'mem':
        return v[0][1], v[0][2]
    if all(isinstance(x, bytes) for x in v):
        b = b''.join(v)
        piece = _mem_piece(ex, st, [ic('i8', c) for c in b])
        _set(st, p, (piece,))
        return piece[1], piece[2]
    raise Unsupported('character access to a std::string with formatted parts')


def _bytes_of(ex, st, p):
    rid, L = _materialise(ex, st, p)
    return rid, L, [ex.load(st, Ptr(rid, i), ('int', 8)) for i in range(L)]


def _ret(ex, st, ins, v):
    res, normal = ins.res, (ins.a[3] if len(ins.a) > 3 else None)
    if st.status is not None:
        return
    f2 = st.frames[-1]
    if res is not None:
        f2.env[res] = v
    if normal is not None:
        ex.jump(st, f2, normal)


def _index(n, what):
    if not tm.is_ic(n):
        raise Unsupported('%s with a symbolic index' % what)
    return n.args[0]


def _index_cases(st, n, L):
    """(state, concrete index or None for 'beyond L') cases of an index term: concrete -> one case; symbolic -> one
    successor state per value 0..L and one for every larger value (infeasible ones carry a contradictory path condition)"""
    if tm.is_ic(n):
        return [(st, n.args[0] if n.args[0] <= L else None)]
    out = []
    for i in range(L + 1):
        s2 = st.clone()
        if s2.assume(mk('icmp', 'i1', 'eq', n, ic(n.ty, i))) is not False:
            out.append((s2, i))
    if st.assume(mk('icmp', 'i1', 'ugt', n, ic(n.ty, L))) is not False:
        out.append((st, None))
    return out


def s_at(ex, st, fr, ins, name, argv):
    rid, L = _materialise(ex, st, argv[0])
    out = []
    for s2, i in _index_cases(st, argv[1], L):
        if i is None or i >= L:
            ex.throw(s2, 'std::out_of_range', ins, 'basic_string::at: __n >= this->size() (which is %d)' % L)
        else:
            _ret(ex, s2, ins, Ptr(rid, i))
        out.append(s2)
    return out


def s_index(ex, st, fr, ins, name, argv):
    rid, L = _materialise(ex, st, argv[0])
    out = []
    for s2, i in _index_cases(st, argv[1], L):
        if i is None:
            s2.ub.append(('std::string::operator[] out of range', 'index > size %d' % L))
            s2.status = 'ub-string-index'
        else:
            _ret(ex, s2, ins, Ptr(rid, i))
        out.append(s2)
    return out


def s_front(ex, st, fr, ins, name, argv):
    rid, L = _materialise(ex, st, argv[0])
    if L == 0:
        st.ub.append(('std::string::front()/back() on an empty string', ''))
        st.status = 'ub-string-front'
        return None
    return Ptr(rid, 0 if 'front' in name_of(name) else L - 1)


def name_of(name):
    return name if isinstance(name, str) else str(name)


def s_data(ex, st, fr, ins, name, argv):
    rid, L = _materialise(ex, st, argv[0])
    return Ptr(rid, 0)


def s_end(ex, st, fr, ins, name, argv):
    rid, L = _materialise(ex, st, argv[0])
    return Ptr(rid, L)


def _in_set(b, chars):
    c = None
    for ch in chars:
        e = mk('icmp', 'i1', 'eq', b, ic('i8', ch))
        c = e if c is None else mk('or', 'i1', c, e)
    return c if c is not None else ic('i1', 0)


def _find_fork(ex, st, ins, L, start, conds_hit, backwards=False):
    """successor states of a character search: result = the first index i (from `start`) whose condition holds, after all
    earlier ones failed, or npos; conds_hit[i] is an i1 term"""
    out = []
    cur = st
    order = range(start, -1, -1) if backwards else range(start, L)
    for i in order:
        c = conds_hit[i]
        if tm.is_ic(c):
            if c.args[0]:
                _ret(ex, cur, ins, ic('i64', i))
                out.append(cur)
                return out
            continue
        s2 = cur.clone()
        if s2.assume(c) is not False:
            _ret(ex, s2, ins, ic('i64', i))
            out.append(s2)
        if cur.assume(tm.negate(c)) is False:
            return out
    _ret(ex, cur, ins, ic('i64', (1 << 64) - 1))
    out.append(cur)
    return out


def s_find_set(kind):
    """find_first_of / find_first_not_of / find_last_of / find_last_not_of (const char* set, size_t pos [, size_t n])"""
    def f(ex, st, fr, ins, name, argv):
        rid, L, bs = _bytes_of(ex, st, argv[0])
        if len(argv) >= 4:
            chars = nbytes(ex, st, argv[1], argv[3])
        else:
            chars = cstr(ex, st, argv[1])
        pos = _index(argv[2], 'std::string::find_*') if len(argv) > 2 else 0
        neg = 'not' in kind
        conds = [(tm.negate(_in_set(b, chars)) if neg else _in_set(b, chars)) for b in bs]
        if 'last' in kind:
            start = min(pos, L - 1) if L else -1
            return _find_fork(ex, st, ins, L, start, conds, backwards=True)
        return _find_fork(ex, st, ins, L, min(pos, L), conds)
    return f


def s_find_char(ex, st, fr, ins, name, argv):
    rid, L, bs = _bytes_of(ex, st, argv[0])
    ch = argv[1]
    pos = _index(argv[2], 'std::string::find') if len(argv) > 2 else 0
    conds = [mk('icmp', 'i1', 'eq', b, ch if tm.ibits(ch.ty) == 8 else mk('trunc', 'i8', ch)) for b in bs]
    return _find_fork(ex, st, ins, L, min(pos, L), conds)


def s_substr(ex, st, fr, ins, name, argv):
    # sret form: argv[0] = result, argv[1] = this, argv[2] = pos, argv[3] = n
    rid, L, bs = _bytes_of(ex, st, argv[1])
    pos = _index(argv[2], 'std::string::substr')
    n = _index(argv[3], 'std::string::substr')
    if pos > L:
        ex.throw(st, 'std::out_of_range', ins, 'basic_string::substr: __pos (which is %d) > this->size() (which is %d)' % (pos, L))
        return [st]
    _set(st, argv[0], (_mem_piece(ex, st, bs[pos:pos + min(n, L - pos)]),))
    return None


def ctype_fn(chars):
    def f(ex, st, fr, ins, name, argv):
        c = argv[0]
        b = mk('trunc', 'i8', c) if tm.ibits(c.ty) != 8 else c
        inr = mk('icmp', 'i1', 'ult', c, ic(c.ty, 128))
        return mk('zext', ex.tt(ins.a[0]), mk('and', 'i1', inr, _in_set(b, chars)))
    return f


_snp = [0]


def fmt_length(x, prec, kind):
    """length (i32 term) of the complete C / to_chars rendering of x in %e ('e') or %f ('f') with the given precision"""
    T = x.ty
    i32 = lambda v: tm.ic('i32', v)
    ax = tm.mk('call', T, 'fabs', x)
    ge = lambda c: tm.mk('fcmp', 'i1', 'oge', ax, tm.fc(T, c))
    lt = lambda c: tm.mk('fcmp', 'i1', 'olt', ax, tm.fc(T, c))
    nz = tm.mk('fcmp', 'i1', 'one', x, tm.fc(T, 0))
    sel = lambda c, a, b: tm.mk('select', 'i32', c, a, b)
    from fractions import Fraction as F
    sign = tm.mk('zext', 'i32', tm.mk('fcmp', 'i1', 'olt', x, tm.fc(T, 0)))
    frac = sel(tm.mk('icmp', 'i1', 'sgt', prec, i32(0)), tm.mk('add', 'i32', prec, i32(1)), i32(0))
    emax = tm.FEMAX[T] + 1
    big = lambda k: F(10) ** k < F(2) ** emax           # 10^k representable in T?
    if kind == 'e':
        ed = i32(2)
        c3 = ge(F(10) ** 100) if big(100) else None
        s3 = tm.mk('and', 'i1', nz, lt(F(1, 10 ** 99)))
        c3 = s3 if c3 is None else tm.mk('or', 'i1', c3, s3)
        ed = sel(c3, i32(3), ed)
        if T == 'f80':
            c4 = tm.mk('or', 'i1', ge(F(10) ** 1000), tm.mk('and', 'i1', nz, lt(F(1, 10 ** 999))))
            ed = sel(c4, i32(4), ed)
        body = tm.mk('add', 'i32', i32(1 + 2), ed)
    else:
        _snp[0] += 1
        many = tm.arg('i32', 'intdigits%d' % _snp[0])      # 6 or more digits before the point: not resolved further
        body = many
        for k in (5, 4, 3, 2, 1):
            if big(k):
                body = sel(lt(F(10) ** k), i32(k), body)
    r = tm.mk('add', 'i32', tm.mk('add', 'i32', sign, frac), body)
    return r




def snprintf_(ex, st, fr, ins, name, argv):
    """snprintf(buf, size, fmt, ...) for the formats "%[.*|.N][L]{e,f}" with C semantics: at most size bytes are written
    (modelled as: the whole buffer holds initialised, otherwise unknown bytes) and the return value is the length the
    complete output would have: sign + digits before the point + point and precision (+ exponent field for e)."""
    buf, size, fmtp = argv[0], argv[1], argv[2]
    fmt = cstr(ex, st, fmtp).decode('latin-1')
    m = re.match(r'^%(?:\.(\*|\d+))?(L?)([ef])$', fmt)
    if not m or not tm.is_ic(size) or not isinstance(buf, Ptr) or buf.region is None:
        raise Unsupported('snprintf format %r' % fmt)
    rest = list(argv[3:])
    if m.group(1) == '*':
        prec = rest.pop(0)
    else:
        prec = tm.ic('i32', int(m.group(1)) if m.group(1) else 6)
    x = rest.pop(0)
    if not isinstance(x, tm.T) or not x.ty.startswith('f'):
        raise Unsupported('snprintf argument %r' % (x,))
    r = fmt_length(x, prec, m.group(3))
    reg = st.wreg(buf.region)
    for o in range(buf.off, min(reg.size, buf.off + size.args[0])):
        _snp[0] += 1
        reg.cells[o] = (1, 'i8', tm.arg('i8', 'fmtbyte%d' % _snp[0]))
    st.events.append(('snprintf', fmt, prec, x))
    d = dict(st.extra.get('snprintf_bufs', {}))
    d[(buf.region, buf.off)] = ('scientific' if m.group(3) == 'e' else 'fixed', prec, x, size.args[0], r)
    st.extra['snprintf_bufs'] = d
    return r


def s_from_sv_ref(ex, st, fr, ins, name, argv):
    _set(st, argv[0], norm([sv_at(ex, st, argv[1])]))


def s_from_sv_val(ex, st, fr, ins, name, argv):
    # (this, len, ptr, alloc&)
    _set(st, argv[0], norm([nbytes(ex, st, argv[2], argv[1])]))


def s_dtor(ex, st, fr, ins, name, argv):
    d = dict(_S(st))
    d.pop((argv[0].region, argv[0].off), None)
    st.extra['strings'] = d


def s_assign_move(ex, st, fr, ins, name, argv):
    _set(st, argv[0], _get(st, argv[1]))
    return argv[0]


def s_append_str(ex, st, fr, ins, name, argv):
    _set(st, argv[0], norm(_get(st, argv[0]) + _get(st, argv[1])))
    return argv[0]


def s_append_cstr(ex, st, fr, ins, name, argv):
    _set(st, argv[0], norm(_get(st, argv[0]) + (cstr(ex, st, argv[1]),)))
    return argv[0]


def s_append_ptr_len(ex, st, fr, ins, name, argv):
    _set(st, argv[0], norm(_get(st, argv[0]) + (nbytes(ex, st, argv[1], argv[2]),)))
    return argv[0]


def s_append_sv_ref(ex, st, fr, ins, name, argv):
    _set(st, argv[0], norm(_get(st, argv[0]) + (sv_at(ex, st, argv[1]),)))
    return argv[0]


def to_chars_(ex, st, fr, ins, name, argv):
    """std::to_chars(first, last, value, chars_format, precision) by its contract: on success the characters are written to
    [first, ptr) and ec is 0; when the output does not fit, ec = value_too_large, ptr = last and nothing is written (the
    range is left unspecified).  The length is the same term as for snprintf; one successor state per possible length."""
    first, last, x, fmt, prec = argv[0], argv[1], argv[2], argv[3], argv[4]
    if not (isinstance(first, Ptr) and isinstance(last, Ptr) and first.region == last.region and first.region is not None):
        raise Unsupported('to_chars range')
    if not tm.is_ic(fmt):
        # the format was chosen by earlier branches that were if-converted: one case per notation
        if not isinstance(fmt, tm.T):
            raise Unsupported('to_chars chars_format %r' % (fmt,))
        outs = []
        for k in (1, 2):
            c = tm.mk('icmp', 'i1', 'eq', fmt, tm.ic(fmt.ty, k))
            if tm.is_ic(c) and c.args[0] == 0:
                continue
            s2 = st.clone()
            s2.assume(c)
            r2 = to_chars_(ex, s2, s2.frames[-1], ins, name, [first, last, x, tm.ic(fmt.ty, k), prec])
            outs += r2
        return outs
    if fmt.args[0] not in (1, 2):
        raise Unsupported('to_chars with chars_format %d' % fmt.args[0])
    room = last.off - first.off
    L = fmt_length(x, prec, 'e' if fmt.args[0] == 1 else 'f')
    res, normal = ins.res, ins.a[3]
    out = []

    def finish(s2, val):
        f2 = s2.frames[-1]
        if res is not None:
            f2.env[res] = val
        if normal is not None:
            ex.jump(s2, f2, normal)
        out.append(s2)
    s2 = st.clone()
    s2.assume(tm.mk('icmp', 'i1', 'sgt', L, tm.ic('i32', room)))
    s2.events.append(('to_chars', 'value_too_large'))
    finish(s2, ('agg', [Ptr(last.region, last.off), tm.ic('i32', 75)]))
    for r in range(1, room + 1):
        c = tm.mk('icmp', 'i1', 'eq', L, tm.ic('i32', r))
        if tm.is_ic(c) and c.args[0] == 0:
            continue
        s3 = st.clone()
        s3.assume(c)
        reg = s3.wreg(first.region)
        for o in range(first.off, first.off + r):
            _snp[0] += 1
            reg.cells[o] = (1, 'i8', tm.arg('i8', 'fmtbyte%d' % _snp[0]))
        finish(s3, ('agg', [Ptr(first.region, first.off + r), tm.ic('i32', 0)]))
    return out


def s_from_range(ex, st, fr, ins, name, argv):
    """std::string(first, last) over a character range"""
    p, q = argv[1], argv[2]
    if not (isinstance(p, Ptr) and isinstance(q, Ptr) and p.region == q.region and p.region is not None and q.off >= p.off):
        raise Unsupported('string from an iterator range that is not one object')
    reg = st.regions[p.region]
    if q.off > reg.size:
        st.ub.append(('load out of bounds', 'std::string(first, last) beyond %s' % reg.name))
    missing = [o for o in range(p.off, min(q.off, reg.size)) if not any(o0 <= o < o0 + c[0] for o0, c in reg.cells.items())]
    if missing:
        st.ub.append(('read of uninitialised memory', 'std::string(first, last) copies %d never-written bytes of %s' % (len(missing), reg.name)))
    try:
        _set(st, argv[0], norm([nbytes(ex, st, p, tm.ic('i64', q.off - p.off))]))
    except Unsupported:
        _set(st, argv[0], (('raw', reg.name, q.off - p.off),))
    return None


def s_pop_back(ex, st, fr, ins, name, argv):
    v = list(_get(st, argv[0]))
    if not v:
        # precondition of pop_back: !empty()
        st.ub.append(('std::string::pop_back() on an empty string', ''))
        st.status = 'ub-pop-back'
        return None
    if isinstance(v[-1], bytes):
        v[-1] = v[-1][:-1]
    else:
        v.append(('popped-last-char',))
    _set(st, argv[0], norm(v))
    return None


def case_fn(kind):
    """PhQ::Lowercase / Uppercase / SnakeCase of a constant string: replaced by the documented result (stub)"""
    def f(ex, st, fr, ins, name, argv):
        b = nbytes(ex, st, argv[2], argv[1])
        if any(c >= 128 for c in b):
            raise Unsupported('%s of a non-ASCII string' % kind)
        r = b.upper() if kind == 'Uppercase' else b.lower()
        if kind == 'SnakeCase':
            r = r.replace(b' ', b'_')
        _set(st, argv[0], norm([r]))
        return None
    return f


def _plen(x):
    return len(x) if isinstance(x, bytes) else (x[2] if isinstance(x, tuple) and x[0] == 'mem' else None)


def s_empty(ex, st, fr, ins, name, argv):
    v = _get(st, argv[0])
    if all(_plen(x) is not None for x in v):
        return ic('i1', 0 if sum(_plen(x) for x in v) else 1)
    return ic('i1', 0 if v else 1)


def s_size(ex, st, fr, ins, name, argv):
    v = _get(st, argv[0])
    if all(_plen(x) is not None for x in v):
        return ic('i64', sum(_plen(x) for x in v))
    raise Unsupported('size() of a string with symbolic parts')


def _concat(kind_a, kind_b):
    def f(ex, st, fr, ins, name, argv):
        # sret result pointer is argv[0]
        def val(k, a):
            if k == 's':
                return _get(st, a)
            if k == 'c':
                return (cstr(ex, st, a),)
            if k == 'ch':
                if not tm.is_ic(a):
                    raise Unsupported('symbolic char')
                return (bytes([a.args[0] & 255]),)
        _set(st, argv[0], norm(val(kind_a, argv[1]) + val(kind_b, argv[2])))
    return f


def to_string_int(ex, st, fr, ins, name, argv):
    v = argv[1]
    if tm.is_ic(v):
        _set(st, argv[0], (str(tm.sval(v)).encode(),))
    else:
        _set(st, argv[0], (('tostr', v),))


def strlen_(ex, st, fr, ins, name, argv):
    p = argv[0]
    try:
        return ic('i64', len(cstr(ex, st, p)))
    except Unsupported:
        pass
    # symbolic bytes: one successor state per position of the first NUL inside the object; if there is none the scan
    # leaves the object (out-of-bounds read)
    if not isinstance(p, Ptr) or p.region is None or st.regions[p.region].name == 'any-string':
        raise Unsupported('strlen of an abstract string')
    reg = st.regions[p.region]
    if reg.size - p.off > 64:
        raise Unsupported('strlen over more than 64 symbolic bytes')
    res, normal = ins.res, ins.a[3]
    out = []
    cur = st
    for i in range(reg.size - p.off):
        b = ex.load(cur, Ptr(p.region, p.off + i), ('int', 8))
        if not isinstance(b, tm.T):
            raise Unsupported('strlen byte %r' % (b,))
        z = mk('icmp', 'i1', 'eq', b, ic('i8', 0))
        if tm.is_ic(z):
            if z.args[0]:
                break
            continue
        s2 = cur.clone()
        s2.assume(z)
        f2 = s2.frames[-1]
        if res is not None:
            f2.env[res] = ic('i64', i)
        if normal is not None:
            ex.jump(s2, f2, normal)
        out.append(s2)
        cur.assume(tm.negate(z))
    else:
        cur.ub.append(('load out of bounds', 'strlen runs past the end of %s (no terminating NUL inside the object)' % reg.name))
        cur.status = 'ub-out-of-bounds'
        out.append(cur)
        return out
    f2 = cur.frames[-1]
    if res is not None:
        f2.env[res] = ic('i64', i)
    if normal is not None:
        ex.jump(cur, f2, normal)
    out.append(cur)
    return out


def emit(ex, st, fr, ins, name, argv):
    st.events.append(('emit', _get(st, argv[0])))


# ---------------------------------------------------------------------------------------- streams
def _streams(st):
    return st.extra.get('streams', {})


def _sset(st, p, v):
    d = dict(_streams(st))
    d[(p.region, p.off)] = v
    st.extra['streams'] = d


def _sget(ex, st, p):
    # an ostream reference may point at the ostream base subobject of the ostringstream (same address in libstdc++)
    v = _streams(st).get((p.region, p.off))
    if v is None:
        raise Unsupported('insertion into a stream that is not a summarised ostringstream')
    return v


def oss_ctor(ex, st, fr, ins, name, argv):
    _sset(st, argv[0], {'notation': None, 'precision': ic('i32', 6), 'pieces': ()})


def oss_dtor(ex, st, fr, ins, name, argv):
    d = dict(_streams(st))
    d.pop((argv[0].region, argv[0].off), None)
    st.extra['streams'] = d


def oss_str(ex, st, fr, ins, name, argv):
    _set(st, argv[0], norm(_sget(ex, st, argv[1])['pieces']))


def os_manip(ex, st, fr, ins, name, argv):
    s = dict(_sget(ex, st, argv[0]))
    f = argv[1]
    if not isinstance(f, FnPtr):
        raise Unsupported('stream manipulator %r' % (f,))
    if f.name == '_ZSt5fixedRSt8ios_base':
        s['notation'] = 'fixed'
    elif f.name == '_ZSt10scientificRSt8ios_base':
        s['notation'] = 'scientific'
    else:
        raise Unsupported('stream manipulator ' + f.name)
    _sset(st, argv[0], s)
    return argv[0]


def os_setprecision(ex, st, fr, ins, name, argv):
    s = dict(_sget(ex, st, argv[0]))
    s['precision'] = argv[1]
    _sset(st, argv[0], s)
    return argv[0]


def os_float(ty):
    def f(ex, st, fr, ins, name, argv):
        s = dict(_sget(ex, st, argv[0]))
        s['pieces'] = s['pieces'] + (('fmt', s['notation'], s['precision'], ty, argv[1]),)
        _sset(st, argv[0], s)
        st.events.append(('insert', s['notation'], s['precision'], ty, argv[1]))
        return argv[0]
    return f


def os_int(ex, st, fr, ins, name, argv):
    s = dict(_sget(ex, st, argv[0]))
    v = argv[1]
    s['pieces'] = s['pieces'] + ((str(tm.sval(v)).encode() if tm.is_ic(v) else ('fmtint', v)),)
    _sset(st, argv[0], s)
    st.events.append(('insert-int', v))
    return argv[0]


def os_string(ex, st, fr, ins, name, argv):
    s = dict(_sget(ex, st, argv[0]))
    s['pieces'] = s['pieces'] + _get(st, argv[1])
    _sset(st, argv[0], s)
    return argv[0]


def os_cstr(ex, st, fr, ins, name, argv):
    s = dict(_sget(ex, st, argv[0]))
    s['pieces'] = s['pieces'] + (cstr(ex, st, argv[1]),)
    _sset(st, argv[0], s)
    return argv[0]


def os_sv(ex, st, fr, ins, name, argv):
    # operator<<(ostream&, string_view) : (os, len, ptr)
    s = dict(_sget(ex, st, argv[0]))
    s['pieces'] = s['pieces'] + (nbytes(ex, st, argv[2], argv[1]),)
    _sset(st, argv[0], s)
    return argv[0]


def print_uninterpreted(ty):
    def f(ex, st, fr, ins, name, argv):
        _set(st, argv[0], (('print', ty, argv[1]),))
    return f


def noop(ex, st, fr, ins, name, argv):
    return None


def throw_logic(ex, st, fr, ins, name, argv):
    ex.throw(st, 'std::logic_error', ins)
    return [st]


E = re.escape
TABLE = [
    (r'^%s::basic_string\(\)$' % E(STR), s_default),
    (r'^%s::basic_string\(%s const&\)$' % (E(STR), E(STR)), s_copy),
    (r'^%s::basic_string\(%s&&\)$' % (E(STR), E(STR)), s_move),
    (r'^%s::basic_string<std::allocator<char> >\(char const\*, std::allocator<char> const&\)$' % E(STR), s_from_cstr),
    (r'^%s::basic_string\(char const\*, unsigned long, std::allocator<char> const&\)$' % E(STR), s_from_ptr_len),
    (r'^%s::basic_string<%s, void>\(%s const&, std::allocator<char> const&\)$' % (E(STR), E(SV), E(SV)), s_from_sv_ref),
    (r'^%s::basic_string<char( const)?\*, void>\(char( const)?\*, char( const)?\*, std::allocator<char> const&\)$' % E(STR), s_from_range),
    (r'^std::to_chars\(char\*, char\*, (float|double|long double), std::chars_format, int\)$', to_chars_),
    (r'^%s::basic_string\(%s::__sv_wrapper, std::allocator<char> const&\)$' % (E(STR), E(STR)), s_from_sv_val),
    (r'^%s::~basic_string\(\)$' % E(STR), s_dtor),
    (r'^%s::operator=\(%s&&\)$' % (E(STR), E(STR)), s_assign_move),
    (r'^%s::append\(%s const&\)$' % (E(STR), E(STR)), s_append_str),
    (r'^%s::append\(char const\*\)$' % E(STR), s_append_cstr),
    (r'^%s::append\(char const\*, unsigned long\)$' % E(STR), s_append_ptr_len),
    (r'^.*%s::append<%s>\(%s const&\)$' % (E(STR), E(SV), E(SV)), s_append_sv_ref),
    (r'^%s::operator\+=\(%s const&\)$' % (E(STR), E(STR)), s_append_str),
    (r'^%s::operator\+=\(char const\*\)$' % E(STR), s_append_cstr),
    (r'^%s::empty\(\) const$' % E(STR), s_empty),
    (r'^%s::pop_back\(\)$' % E(STR), s_pop_back),
    (r'^(?:%s )?PhQ::SnakeCase(?:\[abi:cxx11\])?\(%s\)$' % (E(STR), E(SV)), case_fn('SnakeCase')),
    (r'^(?:%s )?PhQ::Lowercase(?:\[abi:cxx11\])?\(%s\)$' % (E(STR), E(SV)), case_fn('Lowercase')),
    (r'^(?:%s )?PhQ::Uppercase(?:\[abi:cxx11\])?\(%s\)$' % (E(STR), E(SV)), case_fn('Uppercase')),
    (r'^%s::(size|length)\(\) const$' % E(STR), s_size),
    (r'^%s::at\(unsigned long\)( const)?$' % E(STR), s_at),
    (r'^%s::operator\[\]\(unsigned long\)( const)?$' % E(STR), s_index),
    (r'^%s::(front|back)\(\)( const)?$' % E(STR), s_front),
    (r'^%s::(data|c_str|begin|cbegin)\(\)( const)?$' % E(STR), s_data),
    (r'^%s::(end|cend)\(\)( const)?$' % E(STR), s_end),
    (r'^%s::find_first_not_of\(char const\*, unsigned long(, unsigned long)?\) const$' % E(STR), s_find_set('first_not')),
    (r'^%s::find_first_of\(char const\*, unsigned long(, unsigned long)?\) const$' % E(STR), s_find_set('first')),
    (r'^%s::find_last_not_of\(char const\*, unsigned long(, unsigned long)?\) const$' % E(STR), s_find_set('last_not')),
    (r'^%s::find_last_of\(char const\*, unsigned long(, unsigned long)?\) const$' % E(STR), s_find_set('last')),
    (r'^%s::find\(char, unsigned long\) const$' % E(STR), s_find_char),
    (r'^%s::substr\(unsigned long, unsigned long\) const$' % E(STR), s_substr),
    (r'^%s std::operator\+<.*>\(char const\*, %s&&\)$' % (E(STR), E(STR)), _concat('c', 's')),
    (r'^%s std::operator\+<.*>\(char const\*, %s const&\)$' % (E(STR), E(STR)), _concat('c', 's')),
    (r'^%s std::operator\+<.*>\(%s&&, char const\*\)$' % (E(STR), E(STR)), _concat('s', 'c')),
    (r'^%s std::operator\+<.*>\(%s const&, char const\*\)$' % (E(STR), E(STR)), _concat('s', 'c')),
    (r'^%s std::operator\+<.*>\(%s&&, %s&&\)$' % (E(STR), E(STR), E(STR)), _concat('s', 's')),
    (r'^%s std::operator\+<.*>\(%s const&, %s const&\)$' % (E(STR), E(STR), E(STR)), _concat('s', 's')),
    (r'^%s std::operator\+<.*>\(%s&&, %s const&\)$' % (E(STR), E(STR), E(STR)), _concat('s', 's')),
    (r'^%s std::operator\+<.*>\(%s const&, %s&&\)$' % (E(STR), E(STR), E(STR)), _concat('s', 's')),
    (r'^%s std::operator\+<.*>\(%s&&, char\)$' % (E(STR), E(STR)), _concat('s', 'ch')),
    (r'^std::__cxx11::to_string\(int\)$', to_string_int),
    (r'^std::__cxx11::to_string\(long\)$', to_string_int),
    (r'^%s::basic_ostringstream\(\)$' % E(OSS), oss_ctor),
    (r'^%s::~basic_ostringstream\(\)$' % E(OSS), oss_dtor),
    (r'^%s::str\(\) const$' % E(OSS), oss_str),
    (r'^%s::operator<<\(std::ios_base& \(\*\)\(std::ios_base&\)\)$' % E(OS), os_manip),
    (r'^%s& std::operator<< <.*>\(%s&, std::_Setprecision\)$' % (E(OS), E(OS)), os_setprecision),
    (r'^%s::operator<<\(float\)$' % E(OS), os_float('f32')),
    (r'^%s::operator<<\(double\)$' % E(OS), os_float('f64')),
    (r'^%s::operator<<\(long double\)$' % E(OS), os_float('f80')),
    (r'^%s::operator<<\(int\)$' % E(OS), os_int),
    (r'^%s& std::operator<< <.*>\(%s&, %s const&\)$' % (E(OS), E(OS), E(STR)), os_string),
    (r'^%s& std::operator<< <.*>\(%s&, char const\*\)$' % (E(OS), E(OS)), os_cstr),
    (r'^%s& std::operator<< <.*>\(%s&, %s\)$' % (E(OS), E(OS), E(SV)), os_sv),
    (r'^std::allocator<char>::(~)?allocator\(\)$', noop),
    (r'^std::__throw_logic_error\(char const\*\)$', throw_logic),
]
PRINT = [
    (r'^%s PhQ::Print<float>\(float\)$' % E(STR), print_uninterpreted('f32')),
    (r'^%s PhQ::Print<double>\(double\)$' % E(STR), print_uninterpreted('f64')),
    (r'^%s PhQ::Print<long double>\(long double\)$' % E(STR), print_uninterpreted('f80')),
]


def install(summ, mod, summarise_print=True):
    """add the string summaries to a summaries dict for this module"""
    dem = demangle_all(mod)
    table = [(re.compile(p), f) for p, f in TABLE + (PRINT if summarise_print else [])]
    byname = {}
    for n, d in dem.items():
        for rx, f in table:
            if rx.match(d):
                byname[n] = f
                break
    summ.update(byname)
    summ['strlen'] = strlen_
    summ['phqv_emit'] = emit
    summ['snprintf'] = snprintf_
    summ['isspace'] = ctype_fn(b' \t\n\v\f\r')
    summ['isdigit'] = ctype_fn(b'0123456789')
    return summ


def render(pieces):
    """human-readable form of a piece tuple"""
    out = []
    for x in pieces:
        if isinstance(x, bytes):
            out.append(x.decode('utf-8', 'replace'))
        elif x[0] == 'tostr':
            out.append('<to_string(%s)>' % tm.show(x[1], 3))
        elif x[0] == 'print':
            out.append('<Print(%s)>' % tm.show(x[2], 3))
        elif x[0] == 'fmt':
            out.append('<%s.%s(%s)>' % (x[1], tm.show(x[2], 2) if isinstance(x[2], tm.T) else x[2], tm.show(x[4], 3)))
        else:
            out.append(str(x))
    return ''.join(out)
