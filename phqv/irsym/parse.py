"""Parser for the textual LLVM IR (clang 14, typed pointers) fragment that phq kernels lower to.

Produces plain python structures:
  Module.types      : name -> Type (named struct types)
  Module.globals    : name -> Global(name, ty, init, constant)
  Module.functions  : name -> Function(name, ret_ty, params, blocks, order, declared)
Types are tuples:
  ('int', bits) ('float', 'f32'|'f64'|'f80') ('void',) ('ptr', T) ('array', n, T)
  ('struct', packed, (T...)) ('named', name) ('func', ret, (args...), vararg) ('vec', n, T)
  ('label',) ('metadata',)
Values (operands) are tuples:
  ('loc', name) ('glob', name) ('int', v) ('fp', payload) ('null',) ('undef',) ('zero',)
  ('agg', [typed values]) ('str', bytes) ('cexpr', opname, ...) ('true',)/('false',) -> ('int', 1/0)
Typed value = (type, value)
"""
import re
from fractions import Fraction

TOK = re.compile(r'''
  \s+ |
  (?P<str>c?"(?:[^"\\]|\\[0-9A-Fa-f]{2}|\\\\)*") |
  (?P<gid>@(?:"[^"]*"|[-a-zA-Z$._0-9]+)) |
  (?P<lid>%(?:"[^"]*"|[-a-zA-Z$._0-9]+)) |
  (?P<meta>![-a-zA-Z$._0-9]*) |
  (?P<attrgrp>\#\d+) |
  (?P<num>-?0x[KMLHR]?[0-9A-Fa-f]+|[-+]?\d+\.\d*(?:[eE][-+]?\d+)?|-?\d+) |
  (?P<word>[a-zA-Z_$][-a-zA-Z_0-9.$]*) |
  (?P<punct>\.\.\.|[()\[\]{}<>,=*:|])
''', re.X)


class ParseError(Exception):
    pass


def tokenize(s):
    out = []
    pos = 0
    n = len(s)
    while pos < n:
        m = TOK.match(s, pos)
        if not m:
            raise ParseError('cannot tokenize at: %r' % s[pos:pos + 40])
        pos = m.end()
        k = m.lastgroup
        if k is None:
            continue
        out.append((k, m.group(k)))
    return out


PARAM_ATTRS = {
    'noundef', 'nonnull', 'noalias', 'nocapture', 'readonly', 'readnone', 'writeonly', 'signext',
    'zeroext', 'returned', 'immarg', 'inreg', 'nofree', 'nest', 'swiftself', 'swifterror',
    'noreturn', 'nounwind', 'inalloca', 'nosync', 'willreturn', 'mustprogress', 'allocalign',
    'allocptr', 'nomerge', 'cold', 'hot', 'convergent', 'speculatable', 'uwtable', 'optnone',
    'noinline', 'alwaysinline', 'inlinehint', 'minsize', 'optsize', 'ssp', 'sspstrong', 'norecurse',
    'argmemonly', 'inaccessiblememonly', 'inaccessiblemem_or_argmemonly', 'builtin', 'nobuiltin',
    'local_unnamed_addr', 'unnamed_addr', 'dso_local', 'dso_preemptable', 'noduplicate',
}
PARAM_ATTRS_PAREN = {'dereferenceable', 'dereferenceable_or_null', 'sret', 'byval', 'byref',
                     'preallocated', 'elementtype', 'align', 'allocsize', 'vscale_range',
                     'alignstack'}
LINKAGE = {'private', 'internal', 'available_externally', 'linkonce', 'weak', 'common', 'appending',
           'extern_weak', 'linkonce_odr', 'weak_odr', 'external', 'hidden', 'protected', 'default',
           'dso_local', 'dso_preemptable', 'local_unnamed_addr', 'unnamed_addr', 'thread_local',
           'externally_initialized', 'dllimport', 'dllexport'}
FMF = {'fast', 'nnan', 'ninf', 'nsz', 'arcp', 'contract', 'afn', 'reassoc'}
CCONV = {'ccc', 'fastcc', 'coldcc', 'x86_stdcallcc', 'x86_fastcallcc', 'x86_thiscallcc'}


class Global:
    __slots__ = ('name', 'ty', 'init', 'constant', 'external')

    def __init__(self, name, ty, init, constant, external):
        self.name, self.ty, self.init, self.constant, self.external = name, ty, init, constant, external


class Instr:
    __slots__ = ('res', 'op', 'a', 'text')

    def __init__(self, res, op, a, text):
        self.res, self.op, self.a, self.text = res, op, a, text


class Function:
    __slots__ = ('name', 'ret', 'params', 'blocks', 'order', 'declared', 'vararg')

    def __init__(self, name, ret, params, vararg):
        self.name, self.ret, self.params, self.vararg = name, ret, params, vararg
        self.blocks = {}
        self.order = []
        self.declared = True


class LazyFunction:
    """function definition whose body is parsed on first use"""
    declared = False

    def __init__(self, name, header, body):
        self.name = name
        self._header = header
        self._body = body
        self._f = None

    def _get(self):
        if self._f is None:
            self._f = parse_function(self._header, self._body)
            self._body = None
        return self._f

    def __getattr__(self, k):
        if k.startswith('_'):
            raise AttributeError(k)
        return getattr(self._get(), k)


class LazyGlobals(dict):
    def __init__(self, mod):
        super().__init__()
        self.raw = {}
        self.mod = mod

    def _mat(self, nm):
        if nm in self.raw and not dict.__contains__(self, nm):
            rest, line = self.raw[nm]
            try:
                parse_global(nm, rest, self.mod, line)
            except ParseError as e:
                dict.__setitem__(self, nm, Global(nm, None, ('unparsed', str(e)), False, False))

    def get(self, nm, default=None):
        self._mat(nm)
        return dict.get(self, nm, default)

    def __getitem__(self, nm):
        self._mat(nm)
        return dict.__getitem__(self, nm)

    def __contains__(self, nm):
        return nm in self.raw or dict.__contains__(self, nm)

    def names(self):
        return list(self.raw.keys())


class Module:
    def __init__(self):
        self.types = {}
        self.globals = LazyGlobals(self)
        self.functions = {}
        self.ctors = []


class TS:
    """token stream"""

    def __init__(self, toks, text=''):
        self.t = toks
        self.i = 0
        self.text = text

    def peek(self, k=0):
        j = self.i + k
        return self.t[j] if j < len(self.t) else (None, None)

    def next(self):
        x = self.t[self.i]
        self.i += 1
        return x

    def eof(self):
        return self.i >= len(self.t)

    def accept(self, val):
        if self.i < len(self.t) and self.t[self.i][1] == val:
            self.i += 1
            return True
        return False

    def expect(self, val):
        if not self.accept(val):
            raise ParseError('expected %r got %r in: %s' % (val, self.peek(), self.text))

    def skip_parens(self):
        self.expect('(')
        d = 1
        while d:
            _, v = self.next()
            if v == '(':
                d += 1
            elif v == ')':
                d -= 1

    def skip_attrs(self):
        while True:
            k, v = self.peek()
            if k == 'word' and v in PARAM_ATTRS_PAREN:
                self.next()
                if self.peek()[1] == '(':
                    self.skip_parens()
                elif v == 'align':
                    self.next()  # align N
                continue
            if k == 'word' and v in PARAM_ATTRS:
                self.next()
                continue
            if k == 'attrgrp':
                self.next()
                continue
            if k == 'str' and self.peek(1)[1] == '=':  # "attr"="value"
                self.next(); self.next(); self.next()
                continue
            break


def strip_name(s):
    s = s[1:]
    if s.startswith('"'):
        s = s[1:-1]
    return s


def parse_type(ts):
    k, v = ts.next()
    if k == 'word':
        if v[0] == 'i' and v[1:].isdigit():
            t = ('int', int(v[1:]))
        elif v == 'float':
            t = ('float', 'f32')
        elif v == 'double':
            t = ('float', 'f64')
        elif v == 'x86_fp80':
            t = ('float', 'f80')
        elif v == 'void':
            t = ('void',)
        elif v == 'label':
            t = ('label',)
        elif v == 'metadata':
            t = ('metadata',)
        elif v == 'opaque':
            t = ('opaque',)
        elif v == 'ptr':
            t = ('ptr', ('int', 8))
        elif v == 'half':
            t = ('float', 'f16')
        elif v == 'fp128':
            t = ('float', 'f128')
        else:
            raise ParseError('unknown type word %r in %s' % (v, ts.text))
    elif k == 'lid':
        t = ('named', strip_name(v))
    elif v == '[':
        n = int(ts.next()[1])
        ts.expect('x')
        e = parse_type(ts)
        ts.expect(']')
        t = ('array', n, e)
    elif v == '{':
        els = []
        if not ts.accept('}'):
            while True:
                els.append(parse_type(ts))
                if ts.accept('}'):
                    break
                ts.expect(',')
        t = ('struct', False, tuple(els))
    elif v == '<':
        if ts.peek()[1] == '{':
            ts.next()
            els = []
            if not ts.accept('}'):
                while True:
                    els.append(parse_type(ts))
                    if ts.accept('}'):
                        break
                    ts.expect(',')
            ts.expect('>')
            t = ('struct', True, tuple(els))
        else:
            n = int(ts.next()[1])
            ts.expect('x')
            e = parse_type(ts)
            ts.expect('>')
            t = ('vec', n, e)
    else:
        raise ParseError('bad type token %r in %s' % (v, ts.text))
    # suffixes: pointer stars and function types
    while True:
        if ts.peek()[1] == '*':
            ts.next()
            t = ('ptr', t)
        elif ts.peek()[1] == '(' and _looks_like_functype(ts):
            ts.next()
            args = []
            vararg = False
            if not ts.accept(')'):
                while True:
                    if ts.accept('...'):
                        vararg = True
                    else:
                        args.append(parse_type(ts))
                        ts.skip_attrs()
                    if ts.accept(')'):
                        break
                    ts.expect(',')
            t = ('func', t, tuple(args), vararg)
        elif ts.peek()[0] == 'word' and ts.peek()[1] == 'addrspace':
            ts.next()
            ts.skip_parens()
        else:
            break
    return t


def _looks_like_functype(ts):
    # '(' directly after a type is a function type only if followed by a type or ')' or '...'
    k, v = ts.peek(1)
    if v == ')' or v == '...':
        # "T ()" -- function type with no args; but could also be call "T @f()" (callee comes first) so fine
        return True
    if k == 'word' and (v in ('float', 'double', 'x86_fp80', 'void', 'ptr', 'half', 'fp128', 'metadata', 'label')
                        or (v[0] == 'i' and v[1:].isdigit())):
        return True
    if k == 'lid':
        # ambiguous: "%struct.x" is a type; "%5" is a value. named types never purely numeric
        nm = strip_name(v)
        return not nm.isdigit() and ('.' in nm or ':' in nm)
    if v in ('[', '{', '<'):
        return True
    return False


def parse_fp_literal(tok, ty):
    """returns ('fp', payload) where payload is Fraction or 'inf','-inf','nan','-0'; or bits for hex"""
    fmt = ty[1]
    if tok.startswith('0x') or tok.startswith('-0x'):
        neg = tok.startswith('-')
        h = tok[3:] if neg else tok[2:]
        if h[0] == 'K':
            bits = int(h[1:], 16)
            return ('fp', decode_f80(bits))
        if h[0] in 'MLHR':
            raise ParseError('unsupported fp literal ' + tok)
        bits = int(h, 16)
        # float and double constants are both printed as a double bit pattern
        return ('fp', decode_f64(bits))
    return ('fp', Fraction(tok))


def decode_f64(bits):
    s = bits >> 63
    e = (bits >> 52) & 0x7FF
    m = bits & ((1 << 52) - 1)
    if e == 0x7FF:
        if m:
            return 'nan'
        return '-inf' if s else 'inf'
    if e == 0:
        v = Fraction(m, 1 << 52) * Fraction(2) ** (-1022)
    else:
        v = (1 + Fraction(m, 1 << 52)) * Fraction(2) ** (e - 1023)
    if v == 0 and s:
        return '-0'
    return -v if s else v


def decode_f80(bits):
    s = (bits >> 79) & 1
    e = (bits >> 64) & 0x7FFF
    m = bits & ((1 << 64) - 1)
    if e == 0x7FFF:
        if m & ((1 << 63) - 1):
            return 'nan'
        return '-inf' if s else 'inf'
    if e == 0:
        v = Fraction(m, 1 << 63) * Fraction(2) ** (-16382)
    else:
        v = Fraction(m, 1 << 63) * Fraction(2) ** (e - 16383)
    if v == 0 and s:
        return '-0'
    return -v if s else v


CAST_OPS = {'bitcast', 'zext', 'sext', 'trunc', 'fpext', 'fptrunc', 'sitofp', 'uitofp', 'fptosi',
            'fptoui', 'ptrtoint', 'inttoptr', 'addrspacecast'}
BIN_OPS = {'add', 'sub', 'mul', 'udiv', 'sdiv', 'urem', 'srem', 'shl', 'lshr', 'ashr', 'and', 'or',
           'xor', 'fadd', 'fsub', 'fmul', 'fdiv', 'frem'}


def parse_value(ts, ty):
    """parse an operand of known type ty"""
    k, v = ts.next()
    if k == 'lid':
        return ('loc', strip_name(v))
    if k == 'gid':
        return ('glob', strip_name(v))
    if k == 'num':
        if ty[0] == 'float':
            return parse_fp_literal(v, ty)
        return ('int', int(v))
    if k == 'word':
        if v == 'true':
            return ('int', 1)
        if v == 'false':
            return ('int', 0)
        if v == 'null':
            return ('null',)
        if v in ('undef', 'poison'):
            return ('undef',)
        if v == 'zeroinitializer':
            return ('zero',)
        if v == 'none':
            return ('null',)
        if v == 'getelementptr':
            ts.accept('inbounds')
            ts.expect('(')
            bt = parse_type(ts)
            ts.expect(',')
            pt = parse_type(ts)
            pv = parse_value(ts, pt)
            idx = []
            while ts.accept(','):
                ts.accept('inrange')
                it = parse_type(ts)
                idx.append((it, parse_value(ts, it)))
            ts.expect(')')
            return ('cexpr', 'getelementptr', bt, (pt, pv), idx)
        if v in CAST_OPS:
            ts.expect('(')
            st = parse_type(ts)
            sv = parse_value(ts, st)
            ts.expect('to')
            dt = parse_type(ts)
            ts.expect(')')
            return ('cexpr', v, (st, sv), dt)
        if v in BIN_OPS:
            while ts.peek()[1] in ('nuw', 'nsw', 'exact'):
                ts.next()
            ts.expect('(')
            t1 = parse_type(ts)
            v1 = parse_value(ts, t1)
            ts.expect(',')
            t2 = parse_type(ts)
            v2 = parse_value(ts, t2)
            ts.expect(')')
            return ('cexpr', v, (t1, v1), (t2, v2))
        if v in ('icmp', 'fcmp'):
            pred = ts.next()[1]
            ts.expect('(')
            t1 = parse_type(ts)
            v1 = parse_value(ts, t1)
            ts.expect(',')
            t2 = parse_type(ts)
            v2 = parse_value(ts, t2)
            ts.expect(')')
            return ('cexpr', v, pred, (t1, v1), (t2, v2))
        if v == 'select':
            ts.expect('(')
            ops = []
            while True:
                t1 = parse_type(ts)
                ops.append((t1, parse_value(ts, t1)))
                if ts.accept(')'):
                    break
                ts.expect(',')
            return ('cexpr', 'select', ops)
        if v == 'blockaddress':
            ts.skip_parens()
            return ('undef',)
        if v == 'dso_local_equivalent':
            return parse_value(ts, ty)
        raise ParseError('unknown value word %r in %s' % (v, ts.text))
    if k == 'str':
        return ('str', decode_cstr(v))
    if v == '[' or v == '{' or v == '<':
        close = {'[': ']', '{': '}', '<': '>'}[v]
        packed = False
        if v == '<' and ts.peek()[1] == '{':
            ts.next()
            packed = True
            close = '}'
        els = []
        if not ts.accept(close):
            while True:
                et = parse_type(ts)
                els.append((et, parse_value(ts, et)))
                if ts.accept(close):
                    break
                ts.expect(',')
        if packed:
            ts.expect('>')
        return ('agg', els)
    raise ParseError('bad value token %r in %s' % (v, ts.text))


def decode_cstr(tok):
    s = tok[2:-1] if tok.startswith('c') else tok[1:-1]
    out = bytearray()
    i = 0
    b = s.encode('utf-8')
    while i < len(b):
        c = b[i]
        if c == 0x5C:  # backslash
            if b[i + 1] == 0x5C:
                out.append(0x5C)
                i += 2
            else:
                out.append(int(b[i + 1:i + 3], 16))
                i += 3
        else:
            out.append(c)
            i += 1
    return bytes(out)


META_SUFFIX = re.compile(r'(,\s*![\w.]+\s+!\d+)+\s*$')
META_RANGE = re.compile(r'!range\s+!(\d+)')


def strip_meta(line):
    return META_SUFFIX.sub('', line)


def parse_typed_value(ts):
    t = parse_type(ts)
    ts.skip_attrs()
    return (t, parse_value(ts, t))


def parse_call_tail(ts):
    """after 'call'/'invoke' keyword: [fmf] [cconv] [ret attrs] type [fnty] callee(args) ..."""
    while ts.peek()[1] in FMF:
        ts.next()
    while ts.peek()[1] in CCONV:
        ts.next()
    ts.skip_attrs()
    rt = parse_type(ts)
    # if rt is a function type (possibly ptr to), the return type is its ret
    if rt[0] == 'func':
        ret = rt[1]
    else:
        ret = rt
    k, v = ts.next()
    if k == 'gid':
        callee = ('glob', strip_name(v))
    elif k == 'lid':
        callee = ('loc', strip_name(v))
    elif k == 'word' and v == 'bitcast':
        ts.i -= 1
        callee = parse_value(ts, ('ptr', ('int', 8)))
    elif k == 'word' and v == 'asm':
        raise ParseError('inline asm')
    else:
        raise ParseError('bad callee %r in %s' % (v, ts.text))
    ts.expect('(')
    args = []
    if not ts.accept(')'):
        while True:
            at = parse_type(ts)
            ts.skip_attrs()
            if at == ('metadata',):
                # metadata args (debug intrinsics): skip to the next , or )
                d = 0
                while True:
                    k2, v2 = ts.peek()
                    if d == 0 and v2 in (',', ')'):
                        break
                    if v2 == '(':
                        d += 1
                    if v2 == ')':
                        d -= 1
                    ts.next()
                args.append((at, ('undef',)))
            else:
                args.append((at, parse_value(ts, at)))
            if ts.accept(')'):
                break
            ts.expect(',')
    ts.skip_attrs()
    return ret, callee, args


def parse_instr(line, mod):
    text = line
    rng = META_RANGE.search(line)
    line = strip_meta(line)
    ts = TS(tokenize(line), text)
    res = None
    if ts.peek()[0] == 'lid' and ts.peek(1)[1] == '=':
        res = strip_name(ts.next()[1])
        ts.next()
    k, op = ts.next()
    if op in ('tail', 'musttail', 'notail'):
        k, op = ts.next()
    if op in BIN_OPS:
        flags = []
        while ts.peek()[1] in ('nuw', 'nsw', 'exact') or ts.peek()[1] in FMF:
            flags.append(ts.next()[1])
        t = parse_type(ts)
        a = parse_value(ts, t)
        ts.expect(',')
        b = parse_value(ts, t)
        return Instr(res, op, (t, a, b, tuple(flags)), text)
    if op == 'fneg':
        while ts.peek()[1] in FMF:
            ts.next()
        t = parse_type(ts)
        return Instr(res, op, (t, parse_value(ts, t)), text)
    if op in ('icmp', 'fcmp'):
        while ts.peek()[1] in FMF:
            ts.next()
        pred = ts.next()[1]
        t = parse_type(ts)
        a = parse_value(ts, t)
        ts.expect(',')
        b = parse_value(ts, t)
        return Instr(res, op, (pred, t, a, b), text)
    if op == 'select':
        while ts.peek()[1] in FMF:
            ts.next()
        c = parse_typed_value(ts)
        ts.expect(',')
        a = parse_typed_value(ts)
        ts.expect(',')
        b = parse_typed_value(ts)
        return Instr(res, op, (c, a, b), text)
    if op == 'phi':
        while ts.peek()[1] in FMF:
            ts.next()
        t = parse_type(ts)
        inc = []
        while True:
            ts.expect('[')
            v = parse_value(ts, t)
            ts.expect(',')
            lbl = strip_name(ts.next()[1])
            ts.expect(']')
            inc.append((v, lbl))
            if not ts.accept(','):
                break
        return Instr(res, op, (t, inc), text)
    if op == 'load':
        ts.accept('atomic')
        ts.accept('volatile')
        t = parse_type(ts)
        ts.expect(',')
        p = parse_typed_value(ts)
        return Instr(res, op, (t, p, rng.group(1) if rng else None), text)
    if op == 'store':
        ts.accept('atomic')
        ts.accept('volatile')
        v = parse_typed_value(ts)
        ts.expect(',')
        p = parse_typed_value(ts)
        return Instr(res, op, (v, p), text)
    if op == 'getelementptr':
        inb = ts.accept('inbounds')
        bt = parse_type(ts)
        ts.expect(',')
        p = parse_typed_value(ts)
        idx = []
        while ts.accept(','):
            idx.append(parse_typed_value(ts))
        return Instr(res, op, (bt, p, idx, inb), text)
    if op == 'alloca':
        ts.accept('inalloca')
        t = parse_type(ts)
        n = None
        if ts.accept(','):
            if ts.peek()[1] == 'align':
                pass
            else:
                n = parse_typed_value(ts)
        return Instr(res, op, (t, n), text)
    if op in CAST_OPS:
        v = parse_typed_value(ts)
        ts.expect('to')
        dt = parse_type(ts)
        return Instr(res, op, (v, dt), text)
    if op == 'call':
        ret, callee, args = parse_call_tail(ts)
        return Instr(res, 'call', (ret, callee, args, None, None), text)
    if op == 'invoke':
        ret, callee, args = parse_call_tail(ts)
        ts.expect('to')
        ts.expect('label')
        nl = strip_name(ts.next()[1])
        ts.expect('unwind')
        ts.expect('label')
        ul = strip_name(ts.next()[1])
        return Instr(res, 'call', (ret, callee, args, nl, ul), text)
    if op == 'br':
        if ts.accept('label'):
            return Instr(None, 'br', (strip_name(ts.next()[1]),), text)
        c = parse_typed_value(ts)
        ts.expect(',')
        ts.expect('label')
        a = strip_name(ts.next()[1])
        ts.expect(',')
        ts.expect('label')
        b = strip_name(ts.next()[1])
        return Instr(None, 'condbr', (c, a, b), text)
    if op == 'switch':
        v = parse_typed_value(ts)
        ts.expect(',')
        ts.expect('label')
        d = strip_name(ts.next()[1])
        ts.expect('[')
        cases = []
        while not ts.accept(']'):
            cv = parse_typed_value(ts)
            ts.expect(',')
            ts.expect('label')
            cases.append((cv[1][1], strip_name(ts.next()[1])))
        return Instr(None, 'switch', (v, d, cases), text)
    if op == 'ret':
        if ts.peek()[1] == 'void' and ts.peek(1)[0] is None:
            return Instr(None, 'ret', (None,), text)
        return Instr(None, 'ret', (parse_typed_value(ts),), text)
    if op == 'unreachable':
        return Instr(None, 'unreachable', (), text)
    if op == 'resume':
        return Instr(None, 'resume', (parse_typed_value(ts),), text)
    if op == 'landingpad':
        return Instr(res, 'landingpad', (), text)
    if op == 'extractvalue':
        v = parse_typed_value(ts)
        idx = []
        while ts.accept(','):
            idx.append(int(ts.next()[1]))
        return Instr(res, op, (v, idx), text)
    if op == 'insertvalue':
        v = parse_typed_value(ts)
        ts.expect(',')
        e = parse_typed_value(ts)
        idx = []
        while ts.accept(','):
            idx.append(int(ts.next()[1]))
        return Instr(res, op, (v, e, idx), text)
    if op == 'extractelement':
        v = parse_typed_value(ts)
        ts.expect(',')
        i = parse_typed_value(ts)
        return Instr(res, op, (v, i), text)
    if op == 'insertelement':
        v = parse_typed_value(ts)
        ts.expect(',')
        e = parse_typed_value(ts)
        ts.expect(',')
        i = parse_typed_value(ts)
        return Instr(res, op, (v, e, i), text)
    if op == 'shufflevector':
        a = parse_typed_value(ts)
        ts.expect(',')
        b = parse_typed_value(ts)
        ts.expect(',')
        m = parse_typed_value(ts)
        return Instr(res, op, (a, b, m), text)
    if op == 'freeze':
        return Instr(res, op, (parse_typed_value(ts),), text)
    return Instr(res, 'unsupported', (op,), text)


DEF_RE = re.compile(r'^(define|declare)\b')


def parse_func_header(line, mod):
    line = strip_meta(line)
    ts = TS(tokenize(line.rstrip('{ \n')), line)
    ts.next()  # define/declare
    while ts.peek()[0] == 'word' and (ts.peek()[1] in LINKAGE or ts.peek()[1] in CCONV):
        ts.next()
    ts.skip_attrs()
    ret = parse_type(ts)
    name = strip_name(ts.next()[1])
    ts.expect('(')
    params = []
    vararg = False
    n = 0
    if not ts.accept(')'):
        while True:
            if ts.accept('...'):
                vararg = True
            else:
                t = parse_type(ts)
                ts.skip_attrs()
                if ts.peek()[0] == 'lid':
                    pn = strip_name(ts.next()[1])
                else:
                    pn = str(n)
                n_is_unnamed = pn.isdigit()
                params.append((t, pn))
                if n_is_unnamed:
                    n = int(pn) + 1
            if ts.accept(')'):
                break
            ts.expect(',')
    f = Function(name, ret, params, vararg)
    return f


GLOBAL_RE = re.compile(r'^(@(?:"[^"]*"|[-a-zA-Z$._0-9]+))\s*=\s*(.*)$')
TYPE_RE = re.compile(r'^(%(?:"[^"]*"|[-a-zA-Z$._0-9]+))\s*=\s*type\s+(.*)$')
LABEL_RE = re.compile(r'^("[^"]*"|[-a-zA-Z$._0-9]+):')


def parse_module(text):
    mod = Module()
    lines = text.split('\n')
    i = 0
    n = len(lines)
    while i < n:
        line = lines[i]
        i += 1
        if not line or line[0] == ';':
            continue
        if line.startswith('source_filename') or line.startswith('target ') or line.startswith('attributes ') \
                or line[0] == '!' or line.startswith('$') or line.startswith('module asm'):
            continue
        m = TYPE_RE.match(line)
        if m:
            nm = strip_name(m.group(1))
            body = m.group(2)
            if body.strip() == 'opaque':
                mod.types[nm] = ('opaque',)
            else:
                mod.types[nm] = parse_type(TS(tokenize(body), line))
            continue
        m = GLOBAL_RE.match(line)
        if m:
            nm = strip_name(m.group(1))
            mod.globals.raw[nm] = (m.group(2), line)
            if nm == 'llvm.global_ctors':
                mod.globals.get(nm)
            continue
        if line.startswith('declare'):
            try:
                f = parse_func_header(line, mod)
                mod.functions.setdefault(f.name, f)
            except ParseError:
                pass
            continue
        if line.startswith('define'):
            m = re.search(r'@("[^"]*"|[-a-zA-Z$._0-9]+)\(', line)
            body = []
            while i < n and lines[i] != '}':
                body.append(lines[i])
                i += 1
            i += 1
            nm = m.group(1).strip('"')
            mod.functions[nm] = LazyFunction(nm, line, body)
            continue
    return mod


def _root_global(v):
    """name of the global a constant expression ultimately points at"""
    while v is not None:
        if v[0] == 'glob':
            return v[1]
        if v[0] == 'cexpr' and v[1] == 'getelementptr':
            v = v[3][1]
        elif v[0] == 'cexpr' and v[1] in CAST_OPS:
            v = v[2][1]
        else:
            return None
    return None


def parse_global(nm, rest, mod, line):
    rest = strip_meta(rest)
    # strip trailing ", align N", ", comdat", ", section"
    rest = re.sub(r',\s*(comdat(\s*\([^)]*\))?|align \d+|section "[^"]*"|partition "[^"]*")', '', rest)
    ts = TS(tokenize(rest), line)
    external = False
    while ts.peek()[0] == 'word' and ts.peek()[1] in LINKAGE:
        if ts.peek()[1] in ('external', 'extern_weak', 'available_externally'):
            external = True
        ts.next()
        if ts.peek()[1] == '(':
            ts.skip_parens()
    while ts.peek()[1] == 'addrspace':
        ts.next()
        ts.skip_parens()
    k, v = ts.next()
    if v == 'alias' or v == 'ifunc':
        t = parse_type(ts)
        ts.expect(',')
        tv = parse_typed_value(ts)
        mod.globals[nm] = Global(nm, t, ('alias', tv), True, False)
        return
    if v not in ('global', 'constant'):
        raise ParseError('unknown global kind %r' % v)
    t = parse_type(ts)
    init = None
    if not ts.eof():
        init = parse_value(ts, t)
    mod.globals[nm] = Global(nm, t, init, v == 'constant', external and init is None)
    if nm == 'llvm.global_ctors' and init and init[0] == 'agg':
        for et, ev in init[1]:
            if ev[0] == 'agg':
                prio = ev[1][0][1][1]
                fn = ev[1][1][1]
                data = ev[1][2][1] if len(ev[1]) > 2 else None
                mod.ctors.append((prio, fn[1] if fn[0] == 'glob' else None, _root_global(data)))


def parse_function(header, body):
    f = parse_func_header(header, None)
    f.declared = False
    unnamed = [int(p[1]) for p in f.params if p[1].isdigit()]
    entry = str((max(unnamed) + 1) if unnamed else 0)
    cur = entry
    f.blocks[cur] = []
    f.order.append(cur)
    j = 0
    while j < len(body):
        bl = body[j]
        j += 1
        s = bl.strip()
        if not s or s[0] == ';':
            continue
        lm = LABEL_RE.match(s)
        if lm and not bl.startswith('  '):
            cur = lm.group(1).strip('"')
            f.blocks[cur] = []
            f.order.append(cur)
            continue
        if s.startswith('switch ') and not s.rstrip().endswith(']'):
            while j < len(body) and not body[j].strip().startswith(']'):
                s += ' ' + body[j].strip()
                j += 1
            s += ' ]'
            j += 1
        if (s.startswith('invoke ') or '= invoke ' in s) and j < len(body) and body[j].strip().startswith('to label'):
            s += ' ' + body[j].strip()
            j += 1
        if 'landingpad' in s:
            while j < len(body) and body[j].strip().split(' ')[0] in ('cleanup', 'catch', 'filter'):
                j += 1
        try:
            ins = parse_instr(s, None)
        except ParseError as e:
            ins = Instr(None, 'unsupported', (str(e),), s)
        f.blocks[cur].append(ins)
    if not f.blocks[entry]:
        del f.blocks[entry]
        f.order.remove(entry)
    return f
