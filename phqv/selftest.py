"""tool-chain self test run by MANIFEST.setup_cmd: parse + execute + solve + native compare on three real kernels"""
import sys
import z3
from . import harness as H, modes, core, terms as tm
from .terms import mk


def main():
    work = H.scratch_dir()
    W = H.Wrapper
    ws = [
        W('st_speed', 'f64', 2, 'f64', 1, 'auto a=phqv::get<PhQ::Length<double>>(in+0); auto b=phqv::get<PhQ::Time<double>>(in+1); phqv::put(out, PhQ::Speed<double>(a,b));'),
        W('st_conv', 'f32', 1, 'f32', 1, 'out[0]=PhQ::ConvertStatically<PhQ::Unit::Temperature, PhQ::Unit::Temperature::Fahrenheit, PhQ::Unit::Temperature::Celsius>(in[0]);'),
        W('st_lt', 'f80', 6, 'f80', 0, 'auto a=phqv::get<PhQ::Vector<long double>>(in); auto b=phqv::get<PhQ::Vector<long double>>(in+3); iout[0]= a<b;', n_iout=1),
    ]
    u = H.Unit(work, 'selftest', ['PhQ/Speed.hpp', 'PhQ/Temperature.hpp', 'PhQ/Vector.hpp'], ws)
    errs = H.build_units([u])
    if errs[0]:
        print('selftest: build failed\n', errs[0])
        return 1
    ok = True
    def chk(c, what):
        nonlocal ok
        if not c:
            print("selftest: failed:", what)
            ok = False
    r = H.execute_wrapper(u.mod, ws[0])
    x0, x1 = tm.arg('f64', 'x0'), tm.arg('f64', 'x1')
    chk(r.error is None and r.out[0] is mk('fdiv', 'f64', x0, x1), 'term shape')
    it = modes.Bit()
    v, _, _, _ = core.solve([modes.smt_ne(it.ev(r.out[0]), z3.fpDiv(z3.RNE(), z3.FP('x0', z3.Float64()), z3.FP('x1', z3.Float64())))], 5000)
    chk(v == 'unsat', 'unsat expected, got ' + v)
    r3 = H.execute_wrapper(u.mod, ws[2])
    lt = it.ev(r3.iout[0])
    S = modes.FSORT['f80']
    wrong = z3.If(z3.fpLT(z3.FP('x0', S), z3.FP('x3', S)), z3.BitVecVal(1, 64), z3.BitVecVal(0, 64))
    v, _, _, _ = core.solve([lt != wrong], 20000)
    chk(v == 'sat', 'sat expected, got ' + v)
    import numpy as np
    for w in ws:
        rr = H.execute_wrapper(u.mod, w)
        chk(rr.error is None, 'exec ' + w.name)
        xs = [H.NPT[w.in_ty](1.5 + i) for i in range(w.n_in)]
        o, io = u.call_native(w, xs)
        ev = modes.Num({'x%d' % i: x for i, x in enumerate(xs)})
        for i, t in enumerate(rr.out):
            chk(bool(H.NPT[w.out_ty](ev.ev(t)) == o[i]), 'native out ' + w.name)
        for i, t in enumerate(rr.iout):
            chk(int(ev.ev(t)) == io[i], 'native iout ' + w.name)
    print('selftest:', 'ok' if ok else 'FAILED', '(clang %s, z3 %s)' % ('14', z3.get_version_string()))
    return 0 if ok else 1


if __name__ == '__main__':
    sys.exit(main())
