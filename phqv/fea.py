"""Compositional rounding-error analysis whose every step is a solver-checked lemma.

For large expressions the monolithic ROUND query (all rounding variables at once) is out of reach of nlsat
(measured: von Mises stress, 17 rounding variables, no verdict in 120 s on z3 and cvc5).  Here the invariant
        | computed(node) - E(node) |  <=  c(node) * u * M(node),      M(node) >= |E(node)|
is propagated bottom-up over the executed term DAG (E = exact real value, M = magnitude, c = rational constant in
units of u = 2^-p of the result type).  Each propagation step is an instance of a local lemma over at most seven
real variables (operand values, magnitudes, incoming errors, the new rounding error) that is posed to z3 (nlsat)
with the concrete constants of that step and cached; a lemma that is not `unsat` aborts the analysis
(inconclusive).  What remains trusted is only the composition (transitivity of the invariant).
"""
from fractions import Fraction as F
import z3
from . import terms as tm, modes, core
from .terms import T

SLACK = F(1) + F(1, 1 << 12)     # absorbs second-order terms; every use is checked by the lemma it appears in


class Abort(Exception):
    def __init__(self, msg, witness=None):
        Exception.__init__(self, msg)
        self.witness = witness      # (c, M, E) of an ill-conditioned operand, for a conditioning query


_lemma_cache = {}
lemma_log = []


def prove(key, build, timeout_ms):
    """build() -> list of constraints whose conjunction must be unsat"""
    if key in _lemma_cache:
        return _lemma_cache[key]
    v, _, secs, _ = core.solve(build(), timeout_ms)
    _lemma_cache[key] = (v == 'unsat')
    lemma_log.append((key, v, round(secs, 3)))
    return _lemma_cache[key]


def rv(q):
    q = F(q)
    return z3.RealVal('%d/%d' % (q.numerator, q.denominator))


def absz(e, sign):
    if sign == '+':
        return e
    if sign == '-':
        return -e
    return z3.If(e >= 0, e, -e)


def smul(a, b):
    if a == '0' or b == '0':
        return '0'
    if a == '?' or b == '?':
        return '?'
    return '+' if a == b else '-'


def is_pow2(q):
    q = abs(F(q))
    if q == 0:
        return False
    return (q.numerator & (q.numerator - 1)) == 0 and (q.denominator & (q.denominator - 1)) == 0


class Node:
    __slots__ = ('E', 'M', 'c', 'sign', 'rel', 'const')

    def __init__(self, E, M, c, sign, rel, const=None):
        self.E, self.M, self.c, self.sign, self.rel, self.const = E, M, c, sign, rel, const


class Analysis:
    def __init__(self, T_out, positive, timeout_ms=20000, signs=None):
        self.signs = signs or {}
        self.T = T_out
        self.u = F(1, 1 << tm.FPREC[T_out])
        self.positive = positive
        self.real = modes.Real(prefix='f')
        self.memo = {}
        self.timeout = timeout_ms
        self.lemmas_used = 0

    def unit(self, ty):
        """rounding unit of type ty in units of u(T_out)"""
        return F(1 << tm.FPREC[self.T], 1 << tm.FPREC[ty])

    def run(self, t):
        for x in tm.walk(t):
            if x.id not in self.memo:
                self.memo[x.id] = self.node(x)
        return self.memo[t.id]

    def node(self, x):
        op, ty = x.op, x.ty
        kids = [self.memo[a.id] for a in x.args if isinstance(a, T)]
        E = self.real.ev(x) if tm.is_f(ty) else None
        if op == 'arg':
            s = self.signs.get(x.args[0], '+' if self.positive else '?')
            return Node(E, absz(E, s), F(0), s, True)
        if op == 'fc':
            p = x.args[0]
            if isinstance(p, str) and p != '-0':
                raise Abort('non-finite constant')
            q = F(0) if p == '-0' else p
            s = '0' if q == 0 else ('+' if q > 0 else '-')
            return Node(E, rv(abs(q)), F(0), s, True, const=q)
        if op == 'fneg':
            (a,) = kids
            return Node(E, a.M, a.c, {'+': '-', '-': '+'}.get(a.sign, a.sign), a.rel)
        if op == 'fpext':
            (a,) = kids
            return a if True else None
        if op == 'fptrunc':
            (a,) = kids
            c = (a.c + self.unit(ty)) * SLACK
            self.lemma_round1(a.c, self.unit(ty), c)
            return Node(E, a.M, c, a.sign, a.rel)
        if op in ('fadd', 'fsub'):
            a, b = kids
            sb = b.sign if op == 'fadd' else {'+': '-', '-': '+'}.get(b.sign, b.sign)
            un = self.unit(ty)
            if a.c == 0 and b.c == 0:
                # both operands exact: one rounding of the exact sum, relative to the sum itself
                sign = a.sign if (a.sign == sb and a.sign in '+-') else ('?' if '0' not in (a.sign, sb) else (sb if a.sign == '0' else a.sign))
                self.lemma_round1(F(0), un, un)
                return Node(E, absz(E, sign), un, sign, True)
            same = a.sign == sb and a.sign in ('+', '-')
            if a.sign == '0':
                same, sign = True, sb
            elif sb == '0':
                same, sign = True, a.sign
            else:
                sign = a.sign if same else '?'
            c = (max(a.c, b.c) + un) * SLACK
            self.lemma_add(a.c, b.c, un, c)
            M = a.M + b.M
            rel = same and a.rel and b.rel
            return Node(E, absz(E, sign) if rel else M, c, sign, rel)
        if op == 'fmul':
            a, b = kids
            un = self.unit(ty)
            if (a.const is not None and is_pow2(a.const) and a.c == 0) or (b.const is not None and is_pow2(b.const) and b.c == 0):
                un = F(0)      # scaling by a power of two is exact (no overflow/underflow: stated assumption)
            sign = '+' if x.args[0] is x.args[1] else smul(a.sign, b.sign)
            c = (a.c + b.c + un) * SLACK
            self.lemma_mul(a.c, b.c, un, c)
            rel = a.rel and b.rel
            return Node(E, absz(E, sign) if rel else a.M * b.M, c, sign, rel)
        if op == 'fdiv':
            a, b = kids
            if not b.rel:
                raise Abort('division by an ill-conditioned value', (b.c, b.M, b.E))
            un = self.unit(ty)
            if b.const is not None and is_pow2(b.const) and b.c == 0:
                un = F(0)
            sign = smul(a.sign, b.sign)
            c = (a.c + b.c + un) * SLACK * SLACK
            self.lemma_div(a.c, b.c, un, c)
            rel = a.rel
            return Node(E, absz(E, sign) if rel else a.M / b.M, c, sign, rel)
        if op == 'call' and x.args[0] == 'sqrt':
            (a,) = kids
            if not a.rel or a.sign not in ('+', '0'):
                raise Abort('square root of an ill-conditioned or sign-unknown value', (a.c, a.M, a.E) if not a.rel else None)
            un = self.unit(ty)
            c = (a.c / 2 + un) * SLACK
            self.lemma_sqrt(a.c, un, c)
            return Node(E, E, c, '+', True)
        if op == 'call' and x.args[0] == 'pow' and kids[1].const is not None and kids[1].const.denominator == 1 and 0 < kids[1].const <= 8:
            a = kids[0]
            n = int(kids[1].const)
            if not a.rel:
                raise Abort('power of an ill-conditioned value')
            un = self.unit(ty)
            c = (a.c * n + 2 * un) * SLACK
            return Node(E, absz(E, '+' if n % 2 == 0 else a.sign), c, '+' if n % 2 == 0 else a.sign, True)
        if op == 'call' and x.args[0] == 'fabs':
            (a,) = kids
            return Node(E, a.M, a.c, '+' if a.sign in '+-' else a.sign, a.rel)
        if not tm.is_f(ty):
            return None
        raise Abort('no rule for %s' % op)

    # ---------------------------------------------------------------- local lemmas (all variables real)
    def _u(self):
        return rv(self.u)

    def lemma_round1(self, ca, un, c):
        key = ('round1', ca, un, c, self.T)

        def build():
            E, M, h, d = z3.Reals('E M h d')
            u = self._u()
            return [M >= E, M >= -E, h <= rv(ca) * u * M, h >= -rv(ca) * u * M, d <= rv(un) * u, d >= -rv(un) * u,
                    z3.Or((E + h) * (1 + d) - E > rv(c) * u * M, E - (E + h) * (1 + d) > rv(c) * u * M)]
        self._need(key, build)

    def lemma_add(self, ca, cb, un, c):
        key = ('add', ca, cb, un, c, self.T)

        def build():
            Ea, Eb, Ma, Mb, ha, hb, d = z3.Reals('Ea Eb Ma Mb ha hb d')
            u = self._u()
            r = (Ea + ha + Eb + hb) * (1 + d)
            return [Ma >= Ea, Ma >= -Ea, Mb >= Eb, Mb >= -Eb, ha <= rv(ca) * u * Ma, ha >= -rv(ca) * u * Ma,
                    hb <= rv(cb) * u * Mb, hb >= -rv(cb) * u * Mb, d <= rv(un) * u, d >= -rv(un) * u,
                    z3.Or(r - (Ea + Eb) > rv(c) * u * (Ma + Mb), (Ea + Eb) - r > rv(c) * u * (Ma + Mb))]
        self._need(key, build)

    def lemma_mul(self, ca, cb, un, c):
        key = ('mul', ca, cb, un, c, self.T)

        def build():
            Ea, Eb, Ma, Mb, ha, hb, d = z3.Reals('Ea Eb Ma Mb ha hb d')
            u = self._u()
            r = (Ea + ha) * (Eb + hb) * (1 + d)
            return [Ma >= Ea, Ma >= -Ea, Mb >= Eb, Mb >= -Eb, ha <= rv(ca) * u * Ma, ha >= -rv(ca) * u * Ma,
                    hb <= rv(cb) * u * Mb, hb >= -rv(cb) * u * Mb, d <= rv(un) * u, d >= -rv(un) * u,
                    z3.Or(r - Ea * Eb > rv(c) * u * Ma * Mb, Ea * Eb - r > rv(c) * u * Ma * Mb)]
        self._need(key, build)

    def lemma_div(self, ca, cb, un, c):
        key = ('div', ca, cb, un, c, self.T)

        def build():
            # b is relative: b^ = Eb (1 + tb), |tb| <= cb u ; wlog Eb > 0 by the sign symmetry of division
            Ea, Eb, Ma, ha, tb, d, q = z3.Reals('Ea Eb Ma ha tb d q')
            u = self._u()
            return [Ma >= Ea, Ma >= -Ea, Eb > 0, ha <= rv(ca) * u * Ma, ha >= -rv(ca) * u * Ma,
                    tb <= rv(cb) * u, tb >= -rv(cb) * u, d <= rv(un) * u, d >= -rv(un) * u,
                    q * (Eb * (1 + tb)) == (Ea + ha) * (1 + d),
                    z3.Or(q * Eb - Ea > rv(c) * u * Ma, Ea - q * Eb > rv(c) * u * Ma)]
        self._need(key, build)

    def lemma_sqrt(self, ca, un, c):
        key = ('sqrt', ca, un, c, self.T)

        def build():
            e, ta, d, y = z3.Reals('e ta d y')
            u = self._u()
            # a^ = e^2 (1 + ta); y = sqrt(a^) ; result y (1 + d) ; claim |y(1+d) - e| <= c u e
            return [e > 0, ta <= rv(ca) * u, ta >= -rv(ca) * u, d <= rv(un) * u, d >= -rv(un) * u, y >= 0,
                    y * y == e * e * (1 + ta),
                    z3.Or(y * (1 + d) - e > rv(c) * u * e, e - y * (1 + d) > rv(c) * u * e)]
        self._need(key, build)

    def _need(self, key, build):
        self.lemmas_used += 1
        if not prove(key, build, self.timeout):
            raise Abort('local lemma not proved: %s' % (key,))
