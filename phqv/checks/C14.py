"""C14 - comparison is a total order on stored values; equal objects hash equally (BIT mode).

For every comparable type one wrapper evaluates ==, !=, <, >, <=, >= and std::hash of two objects built from
arbitrary stored numbers.  The executed terms are compared, for all non-NaN bit patterns, with the lexicographic
order / component-wise equality specification; hash consistency is `a == b  ==>  hash(a) == hash(b)` with the
std::hash bodies executed and _Hash_bytes uninterpreted.
"""
import sys
import z3
from .. import harness as H, inventory as INV, core, engine, terms as tm, modes
from . import common as C
from .common import CT, cxx, load_arg, sanitize

PROP = 'C14'
MODELS = {
    'ConstitutiveModel::ElasticIsotropicSolid': ['ShearModulus', 'LameFirstModulus'],
    'ConstitutiveModel::CompressibleNewtonianFluid': ['DynamicViscosity', 'BulkDynamicViscosity'],
    'ConstitutiveModel::IncompressibleNewtonianFluid': ['DynamicViscosity'],
}
DIMS = ['Time', 'Length', 'Mass', 'ElectricCurrent', 'Temperature', 'SubstanceAmount', 'LuminousIntensity']


SLOTS = ['iout[0] = (a == b);', 'iout[1] = (a != b);', 'iout[2] = (a < b);', 'iout[3] = (a > b);', 'iout[4] = (a <= b);',
         'iout[5] = (a >= b);']


def body_cmp(ta, decl_a, decl_b, hasher, part=None):
    """part=None: everything in one wrapper; part=k: only slot k (6 = both hashes), so that the path count of the
    hand-written cascades stays linear instead of multiplying"""
    hs = 'iout[6] = (long)%s()(a); iout[7] = (long)%s()(b);' % (hasher, hasher)
    if part is None:
        return '\n'.join([decl_a, decl_b] + SLOTS + [hs])
    return '\n'.join([decl_a, decl_b, SLOTS[part] if part < 6 else hs])


def generate(inv, T):
    ws, obs = [], []
    names = inv.quantity_names() + [m for m in ('PlanarVector', 'Vector', 'SymmetricDyad', 'Dyad') if m in inv.classes]
    for q in names:
        n = inv.classes[q]['shape']
        t = cxx(q, T)
        if n <= 2:
            w = H.Wrapper('w_cmp_%s_%s' % (sanitize(q), T), T, 2 * n, T, 0,
                          body_cmp(t, load_arg('a', q, T, 0, n), load_arg('b', q, T, n, n), 'std::hash<%s>' % t), n_iout=8)
            ws.append(w)
            obs.append({'id': '%s [%s]' % (q, CT[T]), 'w': w.name, 'n': n, 'kind': 'fp'})
        else:
            parts = []
            for k in range(7):
                w = H.Wrapper('w_cmp_%s_%s_p%d' % (sanitize(q), T, k), T, 2 * n, T, 0,
                              body_cmp(t, load_arg('a', q, T, 0, n), load_arg('b', q, T, n, n), 'std::hash<%s>' % t, k), n_iout=8)
                ws.append(w)
                parts.append(w.name)
            obs.append({'id': '%s [%s]' % (q, CT[T]), 'w': parts[0], 'parts': parts, 'n': n, 'kind': 'fp'})
    for m, parts in MODELS.items():
        short = m.split('::')[-1]
        if short not in inv.classes:
            continue
        n = len(parts)
        t = 'PhQ::%s<%s>' % (m, CT[T])
        da = 'const %s a(%s);' % (t, ', '.join('phqv::get<PhQ::%s<%s>>(in+%d)' % (p, CT[T], i) for i, p in enumerate(parts)))
        db = 'const %s b(%s);' % (t, ', '.join('phqv::get<PhQ::%s<%s>>(in+%d)' % (p, CT[T], n + i) for i, p in enumerate(parts)))
        w = H.Wrapper('w_cmp_%s_%s' % (short, T), T, 2 * n, T, 0, body_cmp(t, da, db, 'std::hash<%s>' % t), n_iout=8)
        ws.append(w)
        obs.append({'id': '%s [%s]' % (m, CT[T]), 'w': w.name, 'n': n, 'kind': 'fp'})
    # hash locality: the hash of an object must not depend on memory outside the object (a hash over raw bytes with a wrong
    # length does): two copies of the same object with different neighbouring bytes hash equally
    def hloc(tag, t, decl, hasher, **kw):
        body = decl + '\nstruct S { %s q; unsigned char tail; };\nconst S s1{a, 0x00}; const S s2{a, 0xFF};\niout[0] = (%s()(s1.q) == %s()(s2.q));' % (t, hasher, hasher)
        w = H.Wrapper('w_hloc_%s_%s' % (tag, T), T, kw.get('n_in', 0), T, 0, body, n_iout=1, n_iin=kw.get('n_iin', 0))
        ws.append(w)
        obs.append({'id': '%s hash locality [%s]' % (kw['name'], CT[T]), 'w': w.name, 'n': 0, 'kind': 'hloc'})
    for q in names:
        n = inv.classes[q]['shape']
        hloc(sanitize(q), cxx(q, T), load_arg('a', q, T, 0, n), 'std::hash<%s>' % cxx(q, T), n_in=n, name=q)
    if T == 'f64':
        da = 'const PhQ::Dimensions a(%s);' % ', '.join('PhQ::Dimension::%s(static_cast<int8_t>(iin[%d]))' % (d, i) for i, d in enumerate(DIMS))
        hloc('Dimensions', 'PhQ::Dimensions', da, 'std::hash<PhQ::Dimensions>', n_iin=7, name='Dimensions')
    if T == 'f64':
        # integer-valued types: Dimensions (7 x int8) and the seven Dimension::X (1 x int8)
        da = 'const PhQ::Dimensions a(%s);' % ', '.join('PhQ::Dimension::%s(static_cast<int8_t>(iin[%d]))' % (d, i) for i, d in enumerate(DIMS))
        db = 'const PhQ::Dimensions b(%s);' % ', '.join('PhQ::Dimension::%s(static_cast<int8_t>(iin[%d]))' % (d, 7 + i) for i, d in enumerate(DIMS))
        w = H.Wrapper('w_cmp_Dimensions', T, 0, T, 0, body_cmp('', da, db, 'std::hash<PhQ::Dimensions>'), n_iout=8, n_iin=14)
        ws.append(w)
        obs.append({'id': 'Dimensions', 'w': w.name, 'n': 7, 'kind': 'int', 'hashspec': True})
        for d in DIMS:
            da = 'const PhQ::Dimension::%s a(static_cast<int8_t>(iin[0]));' % d
            db = 'const PhQ::Dimension::%s b(static_cast<int8_t>(iin[1]));' % d
            w = H.Wrapper('w_cmp_Dimension_%s' % d, T, 0, T, 0, body_cmp('', da, db, 'std::hash<PhQ::Dimension::%s>' % d), n_iout=8, n_iin=2)
            ws.append(w)
            obs.append({'id': 'Dimension::' + d, 'w': w.name, 'n': 1, 'kind': 'int'})
    return ws, obs


def lex_lt(lt, eq, n):
    """lexicographic strict order from component predicates lt(i), eq(i)"""
    r = lt(n - 1)
    for i in range(n - 2, -1, -1):
        r = z3.Or(lt(i), z3.And(eq(i), r))
    return r


def b2l(b):
    return z3.If(b, z3.BitVecVal(1, 64), z3.BitVecVal(0, 64))


def worker(ctx):
    T = ctx.spec.payload['T']
    for d in ctx.spec.payload['obs']:
        engine.guarded(ctx, d['id'], lambda d=d: one(ctx, T, d))


def one(ctx, T, d):
    if d['kind'] == 'hloc':
        w = ctx.byname[d['w']]
        r = ctx.result(d['w'])
        o = ctx.ob(d['id'], 'hash-locality', 'BIT', '%s: two copies of the same object placed next to different bytes hash equally (the hash reads nothing outside the object)' % d['id'])
        o.key = o.oid
        if r is None or r.error or r.iout[0] is None:
            o.reason = ctx.why_missing(d['w'])
            return

        def rp(xs, ks=()):
            out, io = ctx.unit.call_native(w, xs, ks)
            return io[0] != 1, 'inputs=%s %s: the hashes of two copies of the same object differ when the byte after the object differs' % ([core.hexf(x) for x in xs], list(ks))
        rp.case = {'kind': 'values', 'impl': w.name, 'expected_out': [], 'expected_iout': [1]}
        it = modes.Bit()
        one_ = tm.ic('i64', 1)
        o.syntactic = r.iout[0] is one_
        o.hash = None if o.syntactic else 'hloc:' + d['id']
        ctx.decide(o, [it.ev(r.iout[0]) != it.ev(one_)] if not o.syntactic else [z3.BoolVal(False)], w, rp, grid=False)
        return
    if True:
        w = ctx.byname[d['w']]
        r = ctx.result(d['w'])
        if d.get('parts'):
            r = merge_parts(ctx, d['parts'])
        n = d['n']
        ids = d['id']
        names = [('order', '%s: < and > are the lexicographic strict order of the stored components (declared order)' % ids),
                 ('equality', '%s: == is component-wise equality, != its negation, <= is (< or ==), >= is (> or ==)' % ids),
                 ('hash', '%s: a == b implies hash(a) == hash(b) (signed zeros included)' % ids)]
        obl = [ctx.ob('%s %s' % (ids, k), 'compare-' + k, 'BIT', desc) for k, desc in names]
        if r is None or r.error or any(t is None for t in r.iout):
            for o in obl:
                o.reason = (r.error if r is not None and getattr(r, 'error', None) else ctx.why_missing(d['w']))
            return
        it = modes.Bit()
        io = [it.ev(t) for t in r.iout]
        if d['kind'] == 'fp':
            S = modes.FSORT[T]
            a = [z3.FP('x%d' % i, S) for i in range(n)]
            b = [z3.FP('x%d' % i, S) for i in range(n, 2 * n)]
            nonan = [z3.Not(z3.fpIsNaN(v)) for v in a + b]
            lt = lex_lt(lambda i: z3.fpLT(a[i], b[i]), lambda i: z3.fpEQ(a[i], b[i]), n)
            gt = lex_lt(lambda i: z3.fpLT(b[i], a[i]), lambda i: z3.fpEQ(a[i], b[i]), n)
            eq = z3.And(*[z3.fpEQ(a[i], b[i]) for i in range(n)])
        else:
            a = [z3.Extract(7, 0, z3.BitVec('k%d' % i, 64)) for i in range(n)]
            b = [z3.Extract(7, 0, z3.BitVec('k%d' % i, 64)) for i in range(n, 2 * n)]
            nonan = []
            lt = lex_lt(lambda i: a[i] < b[i], lambda i: a[i] == b[i], n)
            gt = lex_lt(lambda i: b[i] < a[i], lambda i: a[i] == b[i], n)
            eq = z3.And(*[a[i] == b[i] for i in range(n)])
        rp = make_replay(ctx, w, d)
        ctx.decide(obl[0], nonan + [z3.Or(io[2] != b2l(lt), io[3] != b2l(gt))], w, rp('order'))
        ctx.decide(obl[1], nonan + [z3.Or(io[0] != b2l(eq), io[1] != b2l(z3.Not(eq)), io[4] != b2l(z3.Or(lt, eq)),
                                          io[5] != b2l(z3.Or(gt, eq)))], w, rp('equality'))
        hash_obligation(ctx, obl[2], d, w, r, it, nonan, eq, io, rp('hash'), T)
        for o in obl:
            o.key = o.oid
        if d.get('hashspec'):
            o = ctx.ob(ids + ' hash-value', 'compare-hashspec', 'BIT', 'std::hash<Dimensions> is the polynomial ((17*31+t)*31+l)... of the exponents in 64-bit wrap-around arithmetic [per-exponent lemma + linear combination over shared variables]')
            o.key = o.oid
            from ..terms import mk as M, ic
            es = [M('sext', 'i64', M('trunc', 'i8', tm.arg('i64', 'k%d' % i))) for i in range(n)]
            h = ic('i64', 17)
            for e in es:
                h = M('add', 'i64', M('mul', 'i64', ic('i64', 31), h), e)
            fs = tm.arg_sets(r.iout[6])
            byv = {}
            for x in tm.walk(r.iout[6]):
                if x.op != 'arg' and len(fs[x.id]) == 1:
                    byv.setdefault(next(iter(fs[x.id])), []).append(x)
            if len(byv) == n:
                mi, ms, good = {}, {}, True
                for i in range(n):
                    u = tm.arg('i64', 'u%d' % i)
                    found = None
                    for c in sorted(byv['k%d' % i], key=lambda c_: sum(1 for _ in tm.walk(c_)))[:4]:
                        it3 = modes.Bit()
                        v_, _, sec_, _ = core.solve([it3.ev(c) != it3.ev(es[i])], ctx.timeout)
                        o.secs += sec_
                        if v_ == 'unsat':
                            found = c
                            break
                    if found is None:
                        good = False
                        break
                    mi[found.id] = u
                    ms[es[i].id] = u
                if good:
                    it3 = modes.Bit()
                    s0 = o.secs
                    ctx.decide(o, [it3.ev(tm.replace_nodes(r.iout[6], mi)) != it3.ev(tm.replace_nodes(h, ms))], w, None, grid=False)
                    o.secs += s0
                else:
                    ctx.decide(o, [io[6] != it.ev(h)], w, None)
            else:
                ctx.decide(o, [io[6] != it.ev(h)], w, None)
        if r.ub:
            o = ctx.ob(ids + ' [ub]', 'ub-side-condition', 'BIT', ids + ': no undefined behaviour on any path')
            o.reason = 'possible UB: %s %s' % (r.ub[0][1], r.ub[0][2])


class Merged:
    pass


def merge_parts(ctx, parts):
    m = Merged()
    m.error = None
    m.ub = []
    m.iout = [None] * 8
    for k, nm in enumerate(parts):
        r = ctx.result(nm)
        if r is None or r.error:
            m.error = ctx.why_missing(nm)
            return m
        m.ub += r.ub
        if k < 6:
            m.iout[k] = r.iout[k]
        else:
            m.iout[6], m.iout[7] = r.iout[6], r.iout[7]
    return m


def hash_obligation(ctx, o, d, w, r, it, nonan, eq, io, replay, T):
    """a == b ==> hash(a) == hash(b).  Decided compositionally when the hash is a combination of per-component
    hashes: (1) one lemma per component hash g: fp.eq(a_i, b_i) ==> g(a_i) = g(b_i); (2) with every component hash
    replaced by a shared fresh variable the two combined hashes must be equal.  Falls back to the monolithic query."""
    n = d['n']
    ha, hb = r.iout[6], r.iout[7]
    pre = 'x' if d['kind'] == 'fp' else 'k'
    ca = tm.maximal_single_input(ha)
    cb = {c.id: c for c in tm.maximal_single_input(hb)}
    mapa, mapb, lemmas = {}, {}, []
    ok = bool(ca) and d['kind'] == 'fp'
    if ok:
        for j, c in enumerate(ca):
            (v,) = tm.free_args(c)
            i = int(v[1:])
            if i >= n:
                ok = False
                break
            c2 = tm.substitute(c, {v: tm.arg(T, '%s%d' % (pre, i + n))})
            if c2.id not in cb:
                ok = False
                break
            u = tm.arg(c.ty, 'u%d' % j)
            mapa[c.id] = u
            mapb[c2.id] = u
            lemmas.append((i, c, c2))
        ok = ok and len(mapb) == len(cb)
    if not ok:
        ctx.decide(o, nonan + [eq, io[6] != io[7]], w, replay)
        return
    S = modes.FSORT[T]
    secs = 0.0
    for i, c, c2 in lemmas:
        xa, xb = z3.FP('x%d' % i, S), z3.FP('x%d' % (i + n), S)
        cons = [z3.Not(z3.fpIsNaN(xa)), z3.Not(z3.fpIsNaN(xb)), z3.fpEQ(xa, xb), it.ev(c) != it.ev(c2)]
        ctx.decide(o, cons, w, replay, grid=False)
        secs += o.secs
        if o.verdict != 'discharged':
            if o.verdict == 'inconclusive':
                o.reason = 'component-hash lemma %d: %s' % (i, o.reason)
            return
    a2, b2 = tm.replace_nodes(ha, mapa), tm.replace_nodes(hb, mapb)
    it2 = modes.Bit()
    ctx.decide(o, [it2.ev(a2) != it2.ev(b2)] if a2 is not b2 else [z3.BoolVal(False)], w, None, grid=False)
    o.secs += secs
    o.desc += ' [compositional: %d component-hash lemmas + combination over shared variables]' % len(lemmas)


def py_lex(a, b):
    for x, y in zip(a, b):
        if x < y:
            return True
        if not (x == y):
            return False
    return False


def make_replay(ctx, w, d):
    n = d['n']

    def mk(kind):
        def rp(xs, ks=()):
            if d.get('parts'):
                io = [0] * 8
                for k, nm in enumerate(d['parts']):
                    _, iok = ctx.unit.call_native(ctx.byname[nm], xs, ks)
                    if k < 6:
                        io[k] = iok[k]
                    else:
                        io[6], io[7] = iok[6], iok[7]
            else:
                o, io = ctx.unit.call_native(w, xs, ks)
            vals = list(xs) if d['kind'] == 'fp' else [((int(k) + 128) % 256) - 128 for k in ks]
            a, b = vals[:n], vals[n:2 * n]
            lt, gt = py_lex(a, b), py_lex(b, a)
            eq = all(x == y for x, y in zip(a, b))
            exp = [int(eq), int(not eq), int(lt), int(gt), int(lt or eq), int(gt or eq)]
            got = [int(v) for v in io[:6]]
            bad = False
            if kind == 'order':
                bad = got[2:4] != exp[2:4]
            elif kind == 'equality':
                bad = [got[0], got[1], got[4], got[5]] != [exp[0], exp[1], exp[4], exp[5]]
            else:
                bad = eq and io[6] != io[7]
            return bad, 'a=%s b=%s [==,!=,<,>,<=,>=] impl=%s spec=%s hash(a)=%d hash(b)=%d' % (
                [core.hexf(v) if d['kind'] == 'fp' else v for v in a], [core.hexf(v) if d['kind'] == 'fp' else v for v in b],
                got, exp, io[6], io[7])
        rp.case = {'kind': 'observed', 'impl': w.name}
        return rp
    return mk


def main():
    rep = core.Report(PROP)
    work, inv = C.setup(PROP)
    incs = C.all_includes(work)
    types = C.numeric_types()
    specs = []
    total = 0
    for T in types:
        ws, obs = generate(inv, T)
        obs = C.filter_obs(obs)
        total += len(ws)
        byw = {w.name: w for w in ws}
        for ci, part in enumerate(engine.chunk(obs, 5)):
            specs.append(engine.UnitSpec('c14_%s_%d' % (T, ci), incs, [byw[x] for d in part for x in (d.get('parts') or [d['w']])], {'T': T, 'obs': part, 'prop': PROP}))
    results = engine.run_units(specs, worker, work)
    engine.collect(rep, results)
    rep.bounds = {'numeric_types': types, 'wrappers': total, 'inputs': 'all non-NaN bit patterns of both objects (infinities and signed zeros included); all int8 exponents for Dimensions'}
    rep.assumptions = [
        'NaN components are excluded, as the property states',
        'std::_Hash_bytes is an uninterpreted function of the bytes and the seed; std::hash<long double> (out of line in libstdc++) is 0 for +-0 and an uninterpreted function of the value otherwise',
        'storability in std::set / std::unordered_set follows from strict weak order + hash consistency by the containers\' contract (not executed)',
        'IR of clang 14 at -O1 -ffp-contract=off']
    rep.explanation = 'six comparison operators and std::hash of every comparable type executed symbolically and compared with the lexicographic specification for all non-NaN bit patterns (z3 QF_FPBV + UF)'
    return rep.finish()


if __name__ == '__main__':
    sys.exit(main())
