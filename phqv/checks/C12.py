"""C12 - an elastic isotropic solid is the same material from any modulus pair.

O-formula (isotropic elasticity in terms of shear modulus mu > 0 and Poisson ratio 0 <= nu < 1/2):
     lambda = 2 mu nu / (1 - 2 nu),  E = 2 mu (1 + nu),  K = lambda + 2 mu / 3,  M = lambda + 2 mu
constructors  each of the constructors taking a pair of moduli (found in the inventory) is fed the pair the O-formula
              gives for (mu, nu) and must store exactly (mu, lambda): REAL up to the rounding of the code's own constants
              (4 * 2^-p of the propagated magnitude), every division / root defined for 0 <= nu < 1/2; the propagated
              rounding constant is reported (accuracy) - so rebuilding from any reported pair reproduces the material
accessors     Young, isentropic and isothermal bulk, P-wave moduli and Poisson ratio from stored (mu, lambda) equal
              E = mu (3 lambda + 2 mu) / (lambda + mu), K = lambda + 2 mu / 3, M = lambda + 2 mu, nu = lambda / (2 (lambda + mu))
maps          Stress = 2 mu eps + lambda tr(eps) I, Strain its inverse, Strain(Stress(eps)) = eps, strain-rate arguments are
              ignored, zero maps are +0, all 3 x 3 (model type x overload) combinations, and through the abstract interface
"""
import sys
import z3
from fractions import Fraction as F
from .. import harness as H, inventory as INV, core, engine, terms as tm, modes
from . import common as C, models, C13
from .common import CT

PROP = 'C12'
CLS = 'ElasticIsotropicSolid'
KF, KC = 4, 40


def oform(A, mu, nu):
    lam = 2 * mu * nu / (1 - 2 * nu)
    return {'ShearModulus': mu, 'PoissonRatio': nu, 'LameFirstModulus': lam, 'YoungModulus': 2 * mu * (1 + nu),
            'IsentropicBulkModulus': lam + 2 * mu / 3, 'IsothermalBulkModulus': lam + 2 * mu / 3, 'PWaveModulus': lam + 2 * mu}


def ctor_pairs(inv):
    c = inv.classes.get(CLS, {'members': []})
    out = []
    for m in c['members']:
        if m['kind'] != 'ctor' or m['access'] != 'public' or len(m['params']) != 2:
            continue
        qs = [INV.qname(p['type']) for p in m['params']]
        if None in qs or any(q not in oform(None, 1, F(1, 4)) for q in qs):
            continue
        out.append(qs)
    return out


def extra_specs(inv):
    specs = []
    for T in C.TYPES:
        t = CT[T]
        ws, obs = [], []
        for k, (q0, q1) in enumerate(ctor_pairs(inv)):
            body = 'const PhQ::ConstitutiveModel::%s<%s> model(phqv::get<PhQ::%s<%s>>(in), phqv::get<PhQ::%s<%s>>(in+1)); out[0] = model.ShearModulus().Value(); out[1] = model.LameFirstModulus().Value();' % (
                CLS, t, q0, t, q1, t)
            w = H.Wrapper('w_ctor_%d_%s' % (k, T), T, 2, T, 2, body)
            ws.append(w)
            obs.append({'id': '%s<%s>(%s, %s)' % (CLS, t, q0, q1), 'kind': 'ctor', 'w': w.name, 'q': [q0, q1], 'T': T})
        acc = ['YoungModulus', 'IsentropicBulkModulus', 'IsothermalBulkModulus', 'PWaveModulus', 'PoissonRatio']
        body = 'const PhQ::ConstitutiveModel::%s<%s> model(phqv::get<PhQ::ShearModulus<%s>>(in), phqv::get<PhQ::LameFirstModulus<%s>>(in+1));\n' % (CLS, t, t, t) + \
            '\n'.join('out[%d] = model.%s().Value();' % (i, a) for i, a in enumerate(acc))
        w = H.Wrapper('w_acc_%s' % T, T, 2, T, 5, body)
        ws.append(w)
        obs.append({'id': '%s<%s> derived moduli' % (CLS, t), 'kind': 'accessors', 'w': w.name, 'acc': acc, 'T': T})
        obs = C.filter_obs(obs)
        byw = {w_.name: w_ for w_ in ws}
        if obs:
            specs.append(engine.UnitSpec('c12_ctor_%s' % T, C13.INCS, [byw[d['w']] for d in obs], {'obs': obs, 'prop': PROP}))
    return specs


def worker(ctx):
    for d in ctx.spec.payload['obs']:
        if d.get('kind') == 'ctor':
            engine.guarded(ctx, d['id'], lambda d=d: ctor(ctx, d))
        elif d.get('kind') == 'accessors':
            engine.guarded(ctx, d['id'], lambda d=d: accessors(ctx, d))
        else:
            engine.guarded(ctx, d['id'], lambda d=d: models.check_map(ctx, d))


extra_specs.worker = worker


def ctor(ctx, d):
    w = ctx.byname[d['w']]
    res = ctx.result(d['w'])
    mu, nu = z3.Real('mu'), z3.Real('nu')

    degenerate = set(d['q']) == {'LameFirstModulus', 'PoissonRatio'}     # lambda = nu = 0 does not determine mu

    def assume(A, x):
        f = oform(A, mu, nu)
        return [mu > 0, (nu > 0 if degenerate else nu >= 0), nu < F(1, 2), x[0] == f[d['q'][0]], x[1] == f[d['q'][1]]]
    ctx.accuracy_optional = True
    for i, (name, key) in enumerate((('shear modulus', 'ShearModulus'), ('Lame first modulus', 'LameFirstModulus'))):
        o1 = ctx.ob('%s stores the %s [formula]' % (d['id'], name), 'constructor-formula', 'REAL',
                    '%s: fed the pair isotropic elasticity gives for (mu, nu), the stored %s is the material\'s, and nothing is undefined for 0 <= nu < 1/2' % (d['id'], name))
        o2 = ctx.ob('%s stores the %s [accuracy]' % (d['id'], name), 'constructor-accuracy', 'ROUND',
                    '%s: stored %s: rounding error at most %d * 2^-p of the propagated magnitude' % (d['id'], name, KC))
        if res is None or res.error or res.out[i] is None:
            o1.reason = o2.reason = ctx.why_missing(d['w'])
            continue
        spec = (lambda A, x, key=key: oform(A, mu, nu)[key])
        ctx.formula_bound(o1, o2, res.out[i], spec, w, KF, KC, signs={'x0': '+', 'x1': '+'}, assume=assume, out_index=i,
                          replay=ctor_replay(ctx, w, d, i, key, degenerate))


def ctor_replay(ctx, w, d, i, key, degenerate):
    """native replay on a grid of well-conditioned materials (nu <= 0.3): the pair O-formula gives is rounded into the type,
    the constructor is run, and the stored modulus is compared with the material's"""
    import numpy as np
    from ..algebra import ulp

    def rp(xs):
        T = w.in_ty
        p, emin = tm.FPREC[T], tm.FEMIN[T]
        worst = (0.0, None)
        for mu_ in (F(3, 2), F(81000000000), F(1, 4096)):
            for nu_ in ((F(1, 10 ** 6), F(1, 10), F(1, 4), F(3, 10)) if degenerate else (F(0), F(1, 10 ** 6), F(1, 10), F(1, 4), F(3, 10))):
                f = oform(None, mu_, nu_)
                ins = [core.frac_round(f[d['q'][0]], T), core.frac_round(f[d['q'][1]], T)]
                o, _ = ctx.unit.call_native(w, ins)
                got = o[i]
                exact = f[key]
                scale = max(abs(f[d['q'][0]]), abs(f[d['q'][1]]), abs(f['ShearModulus']), abs(f['LameFirstModulus']))
                if not np.isfinite(got):
                    e = float('inf')
                else:
                    e = float(abs(core.np_to_frac(got) - exact) / ulp(p, emin, scale))
                if e > worst[0]:
                    worst = (e, 'mu = %s, nu = %s: pair (%s, %s) = (%r, %r) stores %r, the material has %.17g; error %.4g ulps of the largest modulus' % (
                        mu_, nu_, d['q'][0], d['q'][1], ins[0], ins[1], got, float(exact), e), ins)
        if worst[0] > 1000:
            rp.case['inputs_override'] = [core.hexf(v) for v in worst[2]]
            return True, worst[1]
        return False, 'well-conditioned grid reproduces no error above 1000 ulps (worst %.3g)' % worst[0]
    rp.case = {'kind': 'observed', 'impl': w.name}
    return rp


def accessors(ctx, d):
    w = ctx.byname[d['w']]
    res = ctx.result(d['w'])
    forms = {
        'YoungModulus': lambda A, x: x[0] * (3 * x[1] + 2 * x[0]) / (x[1] + x[0]),
        'IsentropicBulkModulus': lambda A, x: x[1] + 2 * x[0] / 3,
        'IsothermalBulkModulus': lambda A, x: x[1] + 2 * x[0] / 3,
        'PWaveModulus': lambda A, x: x[1] + 2 * x[0],
        'PoissonRatio': lambda A, x: x[1] / (2 * (x[1] + x[0])),
    }
    for i, a in enumerate(d['acc']):
        o1 = ctx.ob('%s: %s() [formula]' % (d['id'], a), 'accessor-formula', 'REAL', '%s: %s() equals the identity of isotropic elasticity in (mu, lambda)' % (d['id'], a))
        o2 = ctx.ob('%s: %s() [accuracy]' % (d['id'], a), 'accessor-accuracy', 'ROUND', '%s: %s(): rounding error at most 16 * 2^-p of the propagated magnitude' % (d['id'], a))
        if res is None or res.error or res.out[i] is None:
            o1.reason = o2.reason = ctx.why_missing(d['w'])
            continue
        ctx.formula_bound(o1, o2, res.out[i], forms[a], w, KF, 16, signs={'x0': '+', 'x1': '+'},
                          assume=lambda A, x: [x[0] > 0, x[1] >= 0], out_index=i)


def main():
    return C13.main(PROP, [CLS], extra_specs,
                    'the twenty modulus-pair constructors, five derived-modulus accessors and all overloads of the stress/strain maps executed symbolically and compared with the identities of isotropic elasticity')


if __name__ == '__main__':
    sys.exit(main())
