"""C13 - Newtonian fluid models: linear viscous stress and its exact inverse.

For both fluid classes, each of the 3 model numeric types and each of the 3 hand-written argument overloads (9 combinations):
  formula   Stress(D) = 2 mu D (+ mu_b tr(D) I), StrainRate(S) = S/(2 mu) - mu_b tr(S) I / (2 mu (2 mu + 3 mu_b)) per component
            over the reals (REAL, constants' rounding allowed for: 4 * 2^-p of the propagated magnitude) - linearity
            (additivity and homogeneity) of both maps is a consequence of these closed forms
  accuracy  propagated rounding constant at most 16 (solver-checked local lemmas) - a stray narrower cast shows here
  inverse   StrainRate(Stress(D)) = D per component over the reals
  same      through `const ConstitutiveModel&` and Stress(strain, strain_rate): bit-identical to the direct call
  zero      Stress(strain) and Strain(stress) are +0 in every component
  ctor      the one-argument compressible constructor stores a bulk viscosity of +0
"""
import sys
from .. import harness as H, core, engine, terms as tm
from . import common as C, models
from .common import CT

PROP = 'C13'
CLASSES = ['CompressibleNewtonianFluid', 'IncompressibleNewtonianFluid']
INCS = ['PhQ/ConstitutiveModel/CompressibleNewtonianFluid.hpp', 'PhQ/ConstitutiveModel/IncompressibleNewtonianFluid.hpp', 'PhQ/ConstitutiveModel/ElasticIsotropicSolid.hpp']


def generate(classes):
    units = []
    for cls in classes:
        for M in C.TYPES:
            ws, obs = [], []
            for A in C.TYPES:
                w_, o_ = models.map_wrappers(cls, M, A)
                ws += w_
                obs += o_
            units.append((cls, M, ws, obs))
    return units


def worker(ctx):
    for d in ctx.spec.payload['obs']:
        if d.get('kind') == 'ctor1':
            engine.guarded(ctx, d['id'], lambda d=d: ctor1(ctx, d))
        else:
            engine.guarded(ctx, d['id'], lambda d=d: models.check_map(ctx, d))


def ctor1(ctx, d):
    w = ctx.byname[d['w']]
    res = ctx.result(d['w'])
    T = d['M']
    o = ctx.ob(d['id'], 'model-constructor', 'BIT', '%s: stores the given dynamic viscosity and a bulk dynamic viscosity of exactly +0' % d['id'])
    if res is None or res.error:
        o.reason = ctx.why_missing(d['w'])
        return
    exp = [tm.arg(T, 'x0'), tm.fc(T, 0)]
    ctx.bit_equal(o, res.out, exp, w, key=o.oid, replay=ctx.native_term_replay(w, exp))


def main(prop=PROP, classes=CLASSES, extra=None, doc=None):
    rep = core.Report(prop)
    work, inv = C.setup(prop)
    specs = []
    total = 0
    for cls, M, ws, obs in generate(classes):
        if cls == 'CompressibleNewtonianFluid':
            m = CT[M]
            w = H.Wrapper('w_ctor1_%s' % M, M, 1, M, 2,
                          'const PhQ::ConstitutiveModel::CompressibleNewtonianFluid<%s> model(phqv::get<PhQ::DynamicViscosity<%s>>(in)); out[0] = model.DynamicViscosity().Value(); out[1] = model.BulkDynamicViscosity().Value();' % (m, m))
            ws.append(w)
            obs.append({'id': 'CompressibleNewtonianFluid<%s>(dynamic viscosity)' % m, 'kind': 'ctor1', 'w': w.name, 'M': M})
        obs = C.filter_obs(obs)
        total += len(obs)
        byw = {w.name: w for w in ws}
        names = []
        for d in obs:
            for k in ('w', 'ref'):
                if d.get(k) and d[k] not in names:
                    names.append(d[k])
        if names:
            specs.append(engine.UnitSpec('%s_%s_%s' % (prop.lower(), cls[:4], M), INCS, [byw[x] for x in names], {'obs': obs, 'prop': prop}))
    if extra:
        specs += extra(inv)
    results = engine.run_units(specs, worker if prop == 'C13' else extra.worker, work)
    engine.collect(rep, results)
    rep.bounds = {'model_numeric_types': C.TYPES, 'argument_overloads': C.TYPES, 'classes': classes,
                  'inputs': 'all positive viscosities / moduli (second coefficient >= 0), all real symmetric tensors'}
    rep.assumptions = ['clang front-end shim: the three ConstitutiveModel headers are compiled from a scratch copy in which the redundant default template argument of the out-of-class definition is removed (clang rejects it, GCC accepts it); nothing else differs from /repo',
                       'standard model of rounding; composition of solver-checked local lemmas',
                       'model parameters are cast into the model\'s numeric type by the harness; those casts are lifted to exact inputs']
    rep.explanation = doc or 'every overload of every virtual function of the fluid models executed symbolically and compared per component with the closed-form linear maps'
    return rep.finish()


if __name__ == '__main__':
    sys.exit(main())
