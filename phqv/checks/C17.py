"""C17 - quantities are bare numbers in memory.

static    sizeof, alignof, std::is_trivially_copyable, std::is_standard_layout, std::has_virtual_destructor of all
          quantity x numeric-type instantiations, read as the constants clang folds into generated code and compared with
          n * sizeof(T), alignof(T), true, true, false.  These are compile-time facts with no input to quantify over: the
          solver is a formality here (level `other` for this part, said plainly).
symbolic  (BIT, memory model with the GEP offsets of the current IR) an arbitrary array of 2n numbers memcpy'd into Q<T>[2]
          reads back through Value() slot for slot; SetValue / MutableValue on one element write exactly its n numbers and
          leave the neighbour untouched; Zero() is +0 in every component.
"""
import sys
import z3
from .. import harness as H, inventory as INV, core, engine, terms as tm, modes
from . import common as C
from .common import CT, cxx, sanitize

PROP = 'C17'
VCLS = INV.VALUE_CLASS
SIZEOF = {'f32': 4, 'f64': 8, 'f80': 16}


def generate(inv, T):
    ws, obs = [], []
    ct = CT[T]
    for q in inv.quantity_names():
        c = inv.classes[q]
        n = c['shape']
        QT = cxx(q, T)
        tag = '%s_%s' % (sanitize(q), T)
        body = 'iout[0] = sizeof(%s); iout[1] = alignof(%s); iout[2] = std::is_trivially_copyable<%s>::value; iout[3] = std::is_standard_layout<%s>::value; iout[4] = std::has_virtual_destructor<%s>::value; iout[5] = sizeof(%s[3]);' % (QT, QT, QT, QT, QT, QT)
        w0 = H.Wrapper('w_lay_' + tag, T, 0, T, 0, body, n_iout=6)
        ws.append(w0)
        obs.append({'id': '%s<%s> layout' % (q, ct), 'kind': 'static', 'w': w0.name, 'n': n, 'T': T})
        if q in ('Direction', 'PlanarDirection'):
            continue
        vt = ct if VCLS[n] is None else 'PhQ::%s<%s>' % (VCLS[n], ct)
        # read-back and mutators on the first element of a two-element array (dynamic sizes: no static_assert, so that a layout
        # change shows as a violation here and not as a compile error)
        rb = ('unsigned char raw[sizeof(%s[2])]; std::memset(raw, 0, sizeof raw); std::memcpy(raw, in, %d * sizeof(%s) < sizeof raw ? %d * sizeof(%s) : sizeof raw);\n' % (QT, 2 * n, ct, 2 * n, ct) +
              '%s arr[2]; std::memcpy(static_cast<void*>(arr), raw, sizeof raw);\n' % QT +
              'const %s v0 = arr[0].Value(); const %s v1 = arr[1].Value(); std::memcpy(out, &v0, sizeof v0 < %d * sizeof(%s) ? sizeof v0 : %d * sizeof(%s)); std::memcpy(out + %d, &v1, sizeof v1 < %d * sizeof(%s) ? sizeof v1 : %d * sizeof(%s));' % (
                  vt, vt, n, ct, n, ct, n, n, ct, n, ct))
        w1 = H.Wrapper('w_rb_' + tag, T, 2 * n, T, 2 * n, rb)
        ws.append(w1)
        obs.append({'id': '%s<%s> array read-back' % (q, ct), 'kind': 'readback', 'w': w1.name, 'n': n, 'T': T})
        # every quantity inherits SetValue / MutableValue from one of the Dimensional* / Dimensionless* bases (which the
        # inventory does not list when they take two template parameters): generated for all of them; a wrapper that does not
        # compile is reported as inconclusive by the harness
        for mut, code in (('SetValue', 'arr[0].SetValue(v);'), ('MutableValue', 'arr[0].MutableValue() = v;')):
            body = ('%s arr[2]; std::memcpy(static_cast<void*>(arr), in, sizeof arr < %d * sizeof(%s) ? sizeof arr : %d * sizeof(%s));\n' % (QT, 2 * n, ct, 2 * n, ct) +
                    '%s v; std::memcpy(static_cast<void*>(&v), in + %d, sizeof v < %d * sizeof(%s) ? sizeof v : %d * sizeof(%s));\n' % (vt, 2 * n, n, ct, n, ct) +
                    code + '\nstd::memcpy(out, static_cast<const void*>(arr), sizeof arr < %d * sizeof(%s) ? sizeof arr : %d * sizeof(%s));' % (2 * n, ct, 2 * n, ct))
            w2 = H.Wrapper('w_%s_%s' % (mut, tag), T, 3 * n, T, 2 * n, body)
            ws.append(w2)
            obs.append({'id': '%s<%s>::%s' % (q, ct, mut), 'kind': 'mutator', 'w': w2.name, 'n': n, 'T': T})
        w3 = H.Wrapper('w_zero_' + tag, T, 0, T, n, 'const %s z = %s::Zero(); std::memcpy(out, static_cast<const void*>(&z), sizeof z < %d * sizeof(%s) ? sizeof z : %d * sizeof(%s));' % (QT, QT, n, ct, n, ct))
        ws.append(w3)
        obs.append({'id': '%s<%s>::Zero()' % (q, ct), 'kind': 'zero', 'w': w3.name, 'n': n, 'T': T})
    # component mutators / accessors of the value classes the multi-component quantities expose through Value() and
    # MutableValue(): the slot a component name designates is fixed by the naming convention (row-major ij for Dyad; the
    # upper triangle xx xy xz yy yz zz for SymmetricDyad, with ji an alias of ij), independently of the code
    for cls, comps in COMPONENTS.items():
        n = len(set(comps.values()))
        VT = 'PhQ::%s<%s>' % (cls, ct)
        for c, slot in comps.items():
            for form, code in (('Set', 't.Set_%s(v);' % c), ('Mutable', 't.Mutable_%s() = v;' % c)):
                body = '%s t = phqv::get<%s>(in); const %s v = in[%d]; %s phqv::put(out, t);' % (VT, VT, ct, n, code)
                w = H.Wrapper('w_c%s_%s_%s_%s' % (form, cls, c, T), T, n + 1, T, n, body)
                ws.append(w)
                obs.append({'id': '%s<%s>::%s_%s' % (cls, ct, form, c), 'kind': 'component', 'w': w.name, 'n': n, 'T': T, 'slot': slot})
            w = H.Wrapper('w_cGet_%s_%s_%s' % (cls, c, T), T, n, T, 1, 'const %s t = phqv::get<%s>(in); out[0] = t.%s();' % (VT, VT, c))
            ws.append(w)
            obs.append({'id': '%s<%s>::%s()' % (cls, ct, c), 'kind': 'component-get', 'w': w.name, 'n': n, 'T': T, 'slot': slot})
    return ws, obs


def _dyad_components():
    d = {}
    for i, a in enumerate('xyz'):
        for j, b in enumerate('xyz'):
            d[a + b] = 3 * i + j
    return d


def _sym_components():
    order = ['xx', 'xy', 'xz', 'yy', 'yz', 'zz']
    d = {}
    for a in 'xyz':
        for b in 'xyz':
            d[a + b] = order.index(''.join(sorted(a + b)))
    return d


COMPONENTS = {'PlanarVector': {'x': 0, 'y': 1}, 'Vector': {'x': 0, 'y': 1, 'z': 2}, 'SymmetricDyad': _sym_components(), 'Dyad': _dyad_components()}


def worker(ctx):
    for d in ctx.spec.payload['obs']:
        engine.guarded(ctx, d['id'], lambda d=d: one(ctx, d))


def one(ctx, d):
    T, n = d['T'], d['n']
    w = ctx.byname[d['w']]
    res = ctx.result(d['w'])
    if d['kind'] == 'static':
        o = ctx.ob(d['id'], 'static-layout', 'GROUND', '%s: sizeof = %d * sizeof(T) = %d (arrays have no padding), alignof = alignof(T), trivially copyable, standard layout, no virtual destructor' % (d['id'], n, n * SIZEOF[T]))
        o.key = o.oid
        o.syntactic = True
        if res is None or res.error or not all(t is not None and tm.is_ic(t) for t in res.iout):
            o.reason = ctx.why_missing(d['w'])
            return
        got = [t.args[0] for t in res.iout]
        exp = [n * SIZEOF[T], SIZEOF[T], 1, 1, 0, 3 * n * SIZEOF[T]]
        if got == exp:
            o.verdict = 'discharged'
        else:
            o.verdict = 'violated'
            o.reason = '[sizeof, alignof, trivially_copyable, standard_layout, virtual_dtor, sizeof(Q[3])] = %s, required %s' % (got, exp)
            o.replay = core.write_replay(PROP, o.oid, {'kind': 'ground', 'property': PROP, 'obligation': o.oid, 'statement': o.desc, 'observed': o.reason, 'includes': [], 'wrappers': [], 'impl': None, 'inputs': []})
        return
    xs = [tm.arg(T, 'x%d' % i) for i in range(w.n_in)]
    if d['kind'] in ('component', 'component-get'):
        if d['kind'] == 'component':
            o = ctx.ob(d['id'], 'component-mutator', 'BIT', '%s: writes the given number into stored slot %d (the slot its component name designates) and leaves the other %d numbers unchanged' % (d['id'], d['slot'], n - 1))
            exp = [xs[n] if i == d['slot'] else xs[i] for i in range(n)]
        else:
            o = ctx.ob(d['id'], 'component-accessor', 'BIT', '%s: returns stored slot %d' % (d['id'], d['slot']))
            exp = [xs[d['slot']]]
        if res is None or res.error:
            o.reason = ctx.why_missing(d['w'])
            return
        ctx.bit_equal(o, res.out, exp, w, key=o.oid, replay=ctx.native_term_replay(w, exp))
        return
    if d['kind'] == 'readback':
        o = ctx.ob(d['id'], 'array-readback', 'BIT', '%s: 2n numbers copied into Q[2] are read back through Value() slot for slot' % d['id'])
        exp = xs[:2 * n]
    elif d['kind'] == 'mutator':
        o = ctx.ob(d['id'], 'mutator-frame', 'BIT', '%s: writes exactly the n numbers of the element it is applied to, with the given value, and nothing else' % d['id'])
        exp = xs[2 * n:3 * n] + xs[n:2 * n]
    else:
        o = ctx.ob(d['id'], 'zero', 'BIT', '%s: every component is +0' % d['id'])
        exp = [tm.fc(T, 0)] * n
    if res is None or res.error:
        o.reason = ctx.why_missing(d['w'])
        return
    if any(t is None for t in res.out):
        # a slot that is never written: the object is not made of exactly n numbers (padding / hidden members)
        o.key = o.oid
        o.verdict = 'violated'
        o.reason = 'output slots %s are not written: the object layout is not %d consecutive numbers' % ([i for i, t in enumerate(res.out) if t is None], n)
        o.replay = core.write_replay(PROP, o.oid, {'kind': 'ground', 'property': PROP, 'obligation': o.oid, 'statement': o.desc, 'observed': o.reason, 'includes': [], 'wrappers': [], 'impl': None, 'inputs': []})
        return
    ctx.bit_equal(o, res.out, exp, w, key=o.oid, replay=ctx.native_term_replay(w, exp))


def main():
    rep = core.Report(PROP)
    work, inv = C.setup(PROP)
    incs = C.all_includes(work)
    types = C.numeric_types()
    specs = []
    total = 0
    for T in types:
        ws, obs = generate(inv, T)
        obs = C.filter_obs(obs)
        total += len(obs)
        byw = {w.name: w for w in ws}
        for ci, part in enumerate(engine.chunk(obs, 5)):
            specs.append(engine.UnitSpec('c17_%s_%d' % (T, ci), incs, [byw[d['w']] for d in part], {'obs': part, 'prop': PROP}))
    results = engine.run_units(specs, worker, work)
    engine.collect(rep, results)
    rep.bounds = {'numeric_types': types, 'quantities': len(inv.quantity_names()), 'array_length': 2, 'value_class_components': {k: sorted(v) for k, v in COMPONENTS.items()}}
    rep.assumptions = ['sizeof / alignof / type traits are the constants clang 14 folds for x86-64 (GCC agrees on this ABI; not re-derived)',
                       'the static part is a ground comparison: no input to quantify over, the solver is a formality there']
    rep.explanation = 'static layout facts read from folded IR constants; array read-back, mutator frame conditions and Zero() decided bit-precisely with the memory offsets of the current IR'
    return rep.finish()


if __name__ == '__main__':
    sys.exit(main())
