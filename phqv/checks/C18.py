"""C18 - named physical definitions evaluate their textbook formulas.

O-formula: a table of definitional relations written independently of the code as exact expressions.  Each row's
entry point (its existence is pinned by the wrapper compiling) is executed symbolically from clang IR and decided
  REAL : the executed expression equals the formula identically over the reals (all dimensionless constants
         and every argument position matter; constants in the code are exact binary rationals here), and
  ROUND: under the standard model of rounding (every operation (1+d), |d| <= 2^-p) the result is within K ulps
         (as K*2^-p relative to the stated magnitude) for all admissible inputs, in float, double and long double.
"""
import sys
from fractions import Fraction as F
from .. import harness as H, inventory as INV, core, engine, terms as tm, modes
from . import common as C
from .common import CT, cxx, load_arg, store_res, sanitize

PROP = 'C18'
K_DEFAULT = 8


def Q(name):
    return name


# row: (id, [arg quantity types], result quantity type or None, C++ expression over a0,a1.., spec(A, x) -> list, options)
def rows():
    R = []

    def row(rid, args, res, expr, spec, **opt):
        R.append({'id': rid, 'args': args, 'res': res, 'expr': expr, 'spec': spec, 'opt': opt})

    half = F(1, 2)
    row('dynamic pressure = 1/2 rho v^2', ['MassDensity', 'Speed'], 'DynamicPressure', 'RES(a0, a1)', lambda A, x: [half * x[0] * x[1] * x[1]])
    row('dynamic kinematic pressure = 1/2 v^2', ['Speed'], 'DynamicKinematicPressure', 'RES(a0)', lambda A, x: [half * x[0] * x[0]])
    row('dynamic pressure = rho * dynamic kinematic pressure', ['MassDensity', 'DynamicKinematicPressure'], 'DynamicPressure', 'RES(a0, a1)', lambda A, x: [x[0] * x[1]])
    row('total pressure = static + dynamic', ['StaticPressure', 'DynamicPressure'], 'TotalPressure', 'RES(a0, a1)', lambda A, x: [x[0] + x[1]])
    row('total kinematic pressure = static + dynamic', ['StaticKinematicPressure', 'DynamicKinematicPressure'], 'TotalKinematicPressure', 'RES(a0, a1)', lambda A, x: [x[0] + x[1]])
    row('total pressure operator+', ['StaticPressure', 'DynamicPressure'], 'TotalPressure', 'a0 + a1', lambda A, x: [x[0] + x[1]])
    row('sound speed = sqrt(K/rho)', ['IsentropicBulkModulus', 'MassDensity'], 'SoundSpeed', 'RES(a0, a1)', lambda A, x: [A.sqrt(x[0] / x[1])])
    row('sound speed = sqrt(gamma p/rho)', ['HeatCapacityRatio', 'StaticPressure', 'MassDensity'], 'SoundSpeed', 'RES(a0, a1, a2)', lambda A, x: [A.sqrt(x[0] * x[1] / x[2])])
    row('sound speed = sqrt(gamma R T)', ['HeatCapacityRatio', 'SpecificGasConstant', 'Temperature'], 'SoundSpeed', 'RES(a0, a1, a2)', lambda A, x: [A.sqrt(x[0] * x[1] * x[2])])
    row('Mach number = v/a', ['Speed', 'SoundSpeed'], 'MachNumber', 'RES(a0, a1)', lambda A, x: [x[0] / x[1]])
    row('Mach number operator/', ['Speed', 'SoundSpeed'], 'MachNumber', 'a0 / a1', lambda A, x: [x[0] / x[1]])
    row('Reynolds number = rho v L/mu', ['MassDensity', 'Speed', 'Length', 'DynamicViscosity'], 'ReynoldsNumber', 'RES(a0, a1, a2, a3)', lambda A, x: [x[0] * x[1] * x[2] / x[3]])
    row('Reynolds number = v L/nu', ['Speed', 'Length', 'KinematicViscosity'], 'ReynoldsNumber', 'RES(a0, a1, a2)', lambda A, x: [x[0] * x[1] / x[2]])
    row('Prandtl number = nu/alpha', ['KinematicViscosity', 'ThermalDiffusivity'], 'PrandtlNumber', 'RES(a0, a1)', lambda A, x: [x[0] / x[1]])
    row('Prandtl number = cp mu/k', ['SpecificIsobaricHeatCapacity', 'DynamicViscosity', 'ScalarThermalConductivity'], 'PrandtlNumber', 'RES(a0, a1, a2)', lambda A, x: [x[0] * x[1] / x[2]])
    row('heat capacity ratio = cp/cv', ['IsobaricHeatCapacity', 'IsochoricHeatCapacity'], 'HeatCapacityRatio', 'RES(a0, a1)', lambda A, x: [x[0] / x[1]])
    row('heat capacity ratio = cp/cv (specific)', ['SpecificIsobaricHeatCapacity', 'SpecificIsochoricHeatCapacity'], 'HeatCapacityRatio', 'RES(a0, a1)', lambda A, x: [x[0] / x[1]])
    row('heat capacity ratio operator/', ['IsobaricHeatCapacity', 'IsochoricHeatCapacity'], 'HeatCapacityRatio', 'a0 / a1', lambda A, x: [x[0] / x[1]])
    row('gas constant = cp - cv', ['IsobaricHeatCapacity', 'IsochoricHeatCapacity'], 'GasConstant', 'RES(a0, a1)', lambda A, x: [x[0] - x[1]], mag=lambda A, x: x[0] + x[1])
    row('specific gas constant = cp - cv', ['SpecificIsobaricHeatCapacity', 'SpecificIsochoricHeatCapacity'], 'SpecificGasConstant', 'RES(a0, a1)', lambda A, x: [x[0] - x[1]], mag=lambda A, x: x[0] + x[1])
    row('gas constant operator-', ['IsobaricHeatCapacity', 'IsochoricHeatCapacity'], 'GasConstant', 'a0 - a1', lambda A, x: [x[0] - x[1]], mag=lambda A, x: x[0] + x[1])
    row('thermal diffusivity = k/(rho cp)', ['ScalarThermalConductivity', 'MassDensity', 'SpecificIsobaricHeatCapacity'], 'ThermalDiffusivity', 'RES(a0, a1, a2)', lambda A, x: [x[0] / (x[1] * x[2])])
    row('kinematic viscosity = mu/rho', ['DynamicViscosity', 'MassDensity'], 'KinematicViscosity', 'RES(a0, a1)', lambda A, x: [x[0] / x[1]])
    row('kinematic viscosity operator/', ['DynamicViscosity', 'MassDensity'], 'KinematicViscosity', 'a0 / a1', lambda A, x: [x[0] / x[1]])
    row('period = 1/frequency (constructor)', ['Frequency'], 'Time', 'RES(a0)', lambda A, x: [1 / x[0]])
    row('period = 1/frequency (Period())', ['Frequency'], 'Time', 'a0.Period()', lambda A, x: [1 / x[0]])
    row('frequency = 1/period (constructor)', ['Time'], 'Frequency', 'RES(a0)', lambda A, x: [1 / x[0]])
    row('frequency = 1/period (Frequency())', ['Time'], 'Frequency', 'a0.Frequency()', lambda A, x: [1 / x[0]])
    sym = lambda A, x: [x[0], (x[1] + x[3]) * half, (x[2] + x[6]) * half, x[4], (x[5] + x[7]) * half, x[8]]
    symmag = lambda A, x: [A.abs(x[0]), (A.abs(x[1]) + A.abs(x[3])) * half, (A.abs(x[2]) + A.abs(x[6])) * half, A.abs(x[4]), (A.abs(x[5]) + A.abs(x[7])) * half, A.abs(x[8])]
    row('strain = symmetric part of the displacement gradient (Strain())', ['DisplacementGradient'], 'Strain', 'a0.Strain()', sym, positive=False, mags=symmag)
    row('strain = symmetric part of the displacement gradient (constructor)', ['DisplacementGradient'], 'Strain', 'RES(a0)', sym, positive=False, mags=symmag)
    row('strain rate = symmetric part of the velocity gradient (StrainRate())', ['VelocityGradient'], 'StrainRate', 'a0.StrainRate()', sym, positive=False, mags=symmag)
    row('strain rate = symmetric part of the velocity gradient (constructor)', ['VelocityGradient'], 'StrainRate', 'RES(a0)', sym, positive=False, mags=symmag)
    row('linear thermal strain = alpha dT', ['LinearThermalExpansionCoefficient', 'TemperatureDifference'], 'ScalarStrain', 'RES(a0, a1)', lambda A, x: [x[0] * x[1]])
    row('linear thermal strain operator*', ['LinearThermalExpansionCoefficient', 'TemperatureDifference'], 'ScalarStrain', 'a0 * a1', lambda A, x: [x[0] * x[1]])
    third = F(1, 3)
    vol = lambda A, x: [x[0] * x[1] * third, A.const(0), A.const(0), x[0] * x[1] * third, A.const(0), x[0] * x[1] * third]
    row('volumetric thermal strain = (beta dT/3) I (constructor)', ['VolumetricThermalExpansionCoefficient', 'TemperatureDifference'], 'Strain', 'RES(a0, a1)', vol)
    row('volumetric thermal strain = (beta dT/3) I (beta * dT)', ['VolumetricThermalExpansionCoefficient', 'TemperatureDifference'], 'Strain', 'a0 * a1', vol)
    row('volumetric thermal strain = (beta dT/3) I (dT * beta)', ['TemperatureDifference', 'VolumetricThermalExpansionCoefficient'], 'Strain', 'a0 * a1', vol)

    def vm(A, x):
        xx, xy, xz, yy, yz, zz = x
        return [A.sqrt(half * ((xx - yy) * (xx - yy) + (yy - zz) * (yy - zz) + (zz - xx) * (zz - xx) + 6 * (xy * xy + xz * xz + yz * yz)))]
    row('von Mises stress', ['Stress'], 'ScalarStress', 'a0.VonMises()', vm, positive=False, K=12, square=True)

    def trac(A, x):
        xx, xy, xz, yy, yz, zz, nx, ny, nz = x
        return [xx * nx + xy * ny + xz * nz, xy * nx + yy * ny + yz * nz, xz * nx + yz * ny + zz * nz]

    def tracmag(A, x):
        xx, xy, xz, yy, yz, zz, nx, ny, nz = [A.abs(v) for v in x]
        return [xx * nx + xy * ny + xz * nz, xy * nx + yy * ny + yz * nz, xz * nx + yz * ny + zz * nz]
    row('traction = stress . n (constructor)', ['Stress', 'Direction'], 'Traction', 'RES(a0, a1)', trac, positive=False, mags=tracmag)
    row('traction = stress . n (Stress::Traction)', ['Stress', 'Direction'], 'Traction', 'a0.Traction(a1)', trac, positive=False, mags=tracmag)
    iso = lambda A, x: [-x[0], A.const(0), A.const(0), -x[0], A.const(0), -x[0]]
    row('isotropic stress = -p I (constructor)', ['StaticPressure'], 'Stress', 'RES(a0)', iso)
    row('isotropic stress = -p I (StaticPressure::Stress)', ['StaticPressure'], 'Stress', 'a0.Stress()', iso)
    return R


def generate(inv, T):
    sh = C.Shapes(inv)
    ws, obs = [], []
    for k, r in enumerate(rows()):
        shapes = []
        ok = True
        for a in r['args'] + [r['res']]:
            if a not in inv.classes or not inv.classes[a]['shape']:
                ok = False
                break
            shapes.append(inv.classes[a]['shape'])
        name = 'w_def_%d_%s' % (k, T)
        if not ok:
            obs.append({'id': '%s [%s]' % (r['id'], CT[T]), 'row': k, 'w': None, 'why': 'a quantity type of this row does not exist in the tree'})
            continue
        lines = []
        off = 0
        for i, a in enumerate(r['args']):
            lines.append(load_arg('a%d' % i, a, T, off, shapes[i]))
            off += shapes[i]
        expr = r['expr'].replace('RES', cxx(r['res'], T))
        lines.append(store_res(expr, r['res'], T, shapes[-1]))
        ws.append(H.Wrapper(name, T, off, T, shapes[-1], '\n'.join(lines)))
        obs.append({'id': '%s [%s]' % (r['id'], CT[T]), 'row': k, 'w': name, 'n_out': shapes[-1]})
    return ws, obs


def worker(ctx):
    T = ctx.spec.payload['T']
    R = rows()
    for d in ctx.spec.payload['obs']:
        engine.guarded(ctx, d['id'], lambda d=d: one(ctx, T, R[d['row']], d))


def one(ctx, T, r, d):
    if d['w'] is None:
        o = ctx.ob(d['id'], 'definition-exists', 'REAL', d['id'] + ': entry point exists')
        o.reason = d['why']
        return
    w = ctx.byname[d['w']]
    res = ctx.result(d['w'])
    opt = r['opt']
    pos = opt.get('positive', True)
    K = opt.get('K', K_DEFAULT)
    for i in range(d['n_out']):
        comp = '' if d['n_out'] == 1 else ' component %d' % i
        spec = (lambda A, x, i=i: r['spec'](A, x)[i])
        o1 = ctx.ob(d['id'] + comp + ' [identity]', 'definition-identity', 'REAL', '%s%s: the executed expression equals the textbook formula over the reals' % (d['id'], comp))
        o2 = ctx.ob(d['id'] + comp + ' [rounding]', 'definition-rounding', 'ROUND', '%s%s: within %d ulps of the formula under the standard model of rounding' % (d['id'], comp, K))
        if res is None or res.error or res.out[i] is None:
            o1.reason = o2.reason = ctx.why_missing(d['w'])
            continue
        mag = None
        if opt.get('mag'):
            mag = opt['mag']
        elif opt.get('mags'):
            mag = (lambda A, x, i=i: opt['mags'](A, x)[i])
        ctx.round_bound(o1, res.out[i], spec, w, 0, positive=pos, mode='REAL', out_index=i)
        ctx.round_bound(o2, res.out[i], spec, w, K, positive=pos, mag=mag, mode='ROUND', out_index=i)
    if res is not None and not res.error and res.ub:
        o = ctx.ob(d['id'] + ' [ub]', 'ub-side-condition', 'BIT', d['id'] + ': no undefined behaviour on any path')
        o.reason = 'possible UB: %s %s' % (res.ub[0][1], res.ub[0][2])


def main():
    rep = core.Report(PROP)
    work, inv = C.setup(PROP)
    incs = C.all_includes(work)
    types = C.numeric_types()
    specs = []
    total = 0
    for T in types:
        ws, obs = generate(inv, T)
        obs = C.filter_obs(obs)
        total += len(ws)
        byw = {w.name: w for w in ws}
        for ci, part in enumerate(engine.chunk(obs, 5)):
            specs.append(engine.UnitSpec('c18_%s_%d' % (T, ci), incs, [byw[d['w']] for d in part if d['w']], {'T': T, 'obs': part, 'prop': PROP}))
    results = engine.run_units(specs, worker, work)
    engine.collect(rep, results)
    rep.bounds = {'numeric_types': types, 'formula_rows': len(rows()), 'K_ulps': K_DEFAULT,
                  'inputs': 'all positive reals (all reals for the tensor rows); rounding errors: every admissible value of every (1+d)'}
    rep.assumptions = [
        'ROUND is the standard model of floating-point arithmetic: no intermediate overflow or underflow (the property says "does not overflow"; gradual underflow is outside the claim)',
        '"within K ulps" is proved as |r - e| <= K * 2^-p * M, which implies it; M = |e| except for differences (M = sum of magnitudes), stated per row',
        'IR of clang 14 at -O1 -ffp-contract=off; pow(x,2) is lowered to x*x by clang; sqrt is correctly rounded',
        'the O-formula table was written from textbook definitions, not from the code']
    rep.explanation = 'each definitional relation is executed symbolically from clang IR and compared with its textbook formula: exactly over the reals (z3 nlsat) and within K ulps under the standard rounding model, in all three numeric types'
    return rep.finish()


if __name__ == '__main__':
    sys.exit(main())
