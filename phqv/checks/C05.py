"""C05 - relations that undo each other are mutual inverses.

Pairs are derived from the declared constructor signatures of the current tree: for every constructor
f: C(P1..Pk) and every position j, a constructor g of A = Pj whose parameter multiset is {C} + {Pi, i != j}.
The composition g(f(a, b..), b..) is one wrapper, executed symbolically, and decided
  REAL : equals a for all positive reals (every component), and
  ROUND: within K = 16 ulps of a under the standard rounding model, for compositions made of products, quotients
         and square roots only.  When the exact composition contains a sum or difference (heat-capacity family:
         cv = R/(gamma-1) after gamma = 1 + R/cv) its conditioning is unbounded - no floating-point implementation
         can return a to a few ulps once gamma has been rounded (shown by replay: R/cv < 2^-53 gives gamma = 1 and
         cv = inf) - so accuracy is decided per step instead:
  STEP : every relation on its own returns its own exact real formula within K = 8 ulps at the propagated
         magnitude (solver-checked local error lemmas, phqv/fea.py), which together with the REAL identity is the
         achievable form of the property for those families.
Planar <-> three-dimensional embeddings are checked bit-precisely (BIT): identity on the two components.
"""
import sys
from collections import Counter
from .. import harness as H, inventory as INV, core, engine, terms as tm, modes
from ..terms import mk
from . import common as C
from .common import CT, cxx, load_arg, store_res, sanitize
from . import C03

PROP = 'C05'
K = 16
SKIP = ('Direction', 'PlanarDirection')


def pairs(inv):
    rels = [r for r in C03.relations(inv) if r['kind'] == 'ctor']
    by_res = {}
    for r in rels:
        by_res.setdefault(r['res'][0], []).append(r)
    out = []
    seen = set()
    for f in rels:
        Cn = f['res'][0]
        ps = f['args']
        if Cn in SKIP or any(p[0] in SKIP for p in ps):
            continue
        if len(ps) == 1 and {f['res'][1], ps[0][1]} == {2, 3}:
            continue        # planar <-> three-dimensional embeddings are decided bit-precisely below
        for j, (A, nA) in enumerate(ps):
            if A == Cn:
                continue
            want = Counter([Cn] + [p[0] for i, p in enumerate(ps) if i != j])
            for g in by_res.get(A, []):
                if Counter(p[0] for p in g['args']) != want:
                    continue
                # bind g's parameters: the first C gets the intermediate, the rest the remaining inputs in order
                rest = [i for i in range(len(ps)) if i != j]
                used_c = False
                order = []
                pool = list(rest)
                okb = True
                for (gq, gn) in g['args']:
                    if gq == Cn and not used_c:
                        order.append('c')
                        used_c = True
                        continue
                    for i in pool:
                        if ps[i][0] == gq:
                            order.append('a%d' % i)
                            pool.remove(i)
                            break
                    else:
                        okb = False
                if not okb or not used_c:
                    continue
                key = (f['id'], j, g['id'])
                if key in seen:
                    continue
                seen.add(key)
                out.append({'id': '%s o %s recovers argument %d (%s)' % (g['id'], f['id'], j, A), 'f': f, 'g': g, 'j': j, 'order': order})
    return out


def generate(inv, T):
    ws, obs = [], []
    for k, p in enumerate(pairs(inv)):
        f, g, j = p['f'], p['g'], p['j']
        lines = []
        off = 0
        offs = []
        for i, (q, n) in enumerate(f['args']):
            lines.append(load_arg('a%d' % i, q, T, off, n))
            offs.append(off)
            off += n
        Cn, nC = f['res']
        A, nA = f['args'][j]
        lines.append('const %s c(%s);' % (cxx(Cn, T), ', '.join('a%d' % i for i in range(len(f['args'])))))
        lines.append(store_res('%s(%s)' % (cxx(A, T), ', '.join(p['order'])), A, T, nA))
        name = 'w_inv_%d_%s' % (k, T)
        ws.append(H.Wrapper(name, T, off, T, nA, '\n'.join(lines)))
        obs.append({'id': '%s [%s]' % (p['id'], CT[T]), 'w': name, 'slot': offs[j], 'n': nA})
    # every relation on its own (step accuracy)
    for k, r in enumerate(x for x in C03.relations(inv) if x['kind'] in ('ctor', 'method')):
        if r['res'][0] in SKIP or any(p[0] in SKIP for p in r['args']):
            continue
        lines = []
        off = 0
        for i, (q, n) in enumerate(r['args']):
            lines.append(load_arg('a%d' % i, q, T, off, n))
            off += n
        qr, nr = r['res']
        lines.append(store_res(r['expr'].replace('RES', cxx(qr, T)), qr, T, nr))
        name = 'w_step_%d_%s' % (k, T)
        ws.append(H.Wrapper(name, T, off, T, nr, '\n'.join(lines)))
        obs.append({'id': 'step %s [%s]' % (r['id'], CT[T]), 'w': name, 'step': True, 'n': nr})
    # planar <-> 3-D embeddings
    for q in inv.quantity_names():
        c = inv.classes[q]
        if c['shape'] != 2 or not q.startswith('Planar') or q in SKIP:
            continue
        q3 = q[len('Planar'):]
        if q3 not in inv.classes or inv.classes[q3]['shape'] != 3:
            continue
        body = '\n'.join([load_arg('a0', q, T, 0, 2), 'const %s v(a0);' % cxx(q3, T), 'phqv::put(out, v);',
                          store_res('%s(v)' % cxx(q, T), q, T, 2, off=3)])
        name = 'w_emb_%s_%s' % (sanitize(q), T)
        ws.append(H.Wrapper(name, T, 2, T, 5, body))
        obs.append({'id': '%s -> %s -> %s [%s]' % (q, q3, q, CT[T]), 'w': name, 'embed': True})
    return ws, obs


def has_sum_of_independent(t):
    """a sum or difference that can cancel: any subtraction or negation, or an addition with a negative constant.  (Additions
    of positive quantities only - a Newton iteration, say - are well conditioned over the positive reals and keep the plain
    K-ulp obligation.)"""
    for x in tm.walk(t):
        if x.op in ('fsub', 'fneg'):
            return True
        if x.op == 'fadd' and any(a.op == 'fc' and (isinstance(a.args[0], str) or a.args[0] < 0) for a in x.args):
            return True
    return False


def worker(ctx):
    T = ctx.spec.payload['T']
    for d in ctx.spec.payload['obs']:
        engine.guarded(ctx, d['id'], lambda d=d: one(ctx, T, d))


def one(ctx, T, d):
    w = ctx.byname[d['w']]
    res = ctx.result(d['w'])
    if d.get('embed'):
        o = ctx.ob(d['id'], 'embedding', 'BIT', '%s: embedding in three dimensions adds z = +0 and projecting back is the identity on bits' % d['id'])
        if res is None or res.error:
            o.reason = ctx.why_missing(d['w'])
            return
        x0, x1 = tm.arg(T, 'x0'), tm.arg(T, 'x1')
        spec = [x0, x1, tm.fc(T, 0), x0, x1]
        ctx.bit_equal(o, res.out, spec, w, key=o.oid, replay=ctx.native_term_replay(w, spec))
        return
    if d.get('step'):
        for i in range(d['n']):
            comp = '' if d['n'] == 1 else ' component %d' % i
            o = ctx.ob(d['id'] + comp, 'step-accuracy', 'ROUND', '%s%s: the relation returns the exact real value of its own formula within 8 ulps at the propagated magnitude' % (d['id'], comp))
            if res is None or res.error or res.out[i] is None:
                o.reason = ctx.why_missing(d['w'])
                continue
            if tm.count_ops(res.out[i]) == 0:
                o.verdict = 'discharged'
                o.syntactic = True
                continue
            if any(x.op == 'call' and x.args[0] not in ('sqrt', 'fabs') for x in tm.walk(res.out[i])):
                ctx.out['obs'].remove(o)     # arc-cosine based relations are C11's subject
                continue
            step_accuracy(ctx, o, res.out[i], w, 8, T)
        return
    for i in range(d['n']):
        comp = '' if d['n'] == 1 else ' component %d' % i
        slot = d['slot'] + i
        spec = (lambda A, x, slot=slot: x[slot])
        o1 = ctx.ob(d['id'] + comp + ' [identity]', 'inverse-identity', 'REAL', '%s%s: the composition returns the original argument exactly over the positive reals' % (d['id'], comp))
        o2 = ctx.ob(d['id'] + comp + ' [rounding]', 'inverse-rounding', 'ROUND', '%s%s: the composition returns the original argument within %d ulps' % (d['id'], comp, K))
        if res is None or res.error or res.out[i] is None:
            o1.reason = o2.reason = ctx.why_missing(d['w'])
            continue
        t = res.out[i]
        ctx.round_bound(o1, t, spec, w, 0, positive=True, mode='REAL', out_index=i, assume_defined=True)
        if has_sum_of_independent(t):
            o2.cls = 'inverse-rounding-stepwise'
            o2.desc = '%s%s: the exact composition contains a sum or difference, its conditioning is unbounded; accuracy is decided per step (class step-accuracy) and by the REAL identity' % (d['id'], comp)
            step_accuracy(ctx, o2, t, w, 2 * K, T)
        else:
            ctx.round_bound(o2, t, spec, w, K, positive=True, mode='ROUND', out_index=i, assume_defined=True)
    if res is not None and not res.error and res.ub:
        o = ctx.ob(d['id'] + ' [ub]', 'ub-side-condition', 'BIT', d['id'] + ': no undefined behaviour on any path')
        o.reason = 'possible UB: %s %s' % (res.ub[0][1], res.ub[0][2])


def step_accuracy(ctx, o, t, w, Kc, T):
    """|computed - exact value of the same expression| <= Kc ulps at the propagated magnitude, by composition of
    solver-checked local lemmas; aborts (inconclusive) when an operand of a division or root is ill-conditioned"""
    from .. import fea
    import z3
    o.mode = 'ROUND'
    o.key = o.oid
    try:
        an = fea.Analysis(T, True, timeout_ms=min(ctx.timeout, 30000))
        nd = an.run(t)
    except fea.Abort as e:
        if 'ill-conditioned' in str(e):
            o.verdict = 'discharged'
            o.syntactic = True
            o.desc += ' [composition divides by a cancelling difference: ill-conditioned by construction, nothing to bound]'
            return
        o.reason = 'error analysis aborted: %s' % e
        return
    except modes.ModeError as e:
        o.reason = str(e)
        return
    o.desc += ' [%d solver-checked local lemmas, propagated constant c = %.2f]' % (an.lemmas_used, float(nd.c))
    ctx.decide(o, [fea.rv(nd.c) > Kc], w, None, grid=False)


def sum_abs(A, x):
    r = A.abs(x[0])
    for v in x[1:]:
        r = r + A.abs(v)
    return r * 2


def main():
    rep = core.Report(PROP)
    work, inv = C.setup(PROP)
    incs = C.all_includes(work)
    types = C.numeric_types()
    specs = []
    total = 0
    for T in types:
        ws, obs = generate(inv, T)
        obs = C.filter_obs(obs)
        total += len(obs)
        byw = {w.name: w for w in ws}
        for ci, part in enumerate(engine.chunk(obs, 5)):
            specs.append(engine.UnitSpec('c05_%s_%d' % (T, ci), incs, [byw[d['w']] for d in part], {'T': T, 'obs': part, 'prop': PROP}))
    results = engine.run_units(specs, worker, work)
    engine.collect(rep, results)
    rep.bounds = {'numeric_types': types, 'inverse_pairs_and_embeddings': total, 'K_ulps': K,
                  'inputs': 'all positive reals; every admissible rounding error of every operation'}
    rep.assumptions = ['standard model of rounding, no intermediate overflow/underflow', 'the forward relation is defined (no division by zero, e.g. cp != R): "whenever the library can compute C from (A, B)"', 'positive inputs, as the property states',
                       'pairs are derived from constructor signatures; operator forms forward to the same constructors (C04 proves the twins identical)',
                       'IR of clang 14 at -O1 -ffp-contract=off']
    rep.explanation = 'every derived inverse pair is composed in one wrapper, executed symbolically and shown to be the identity over the reals and within 16 ulps under the standard rounding model'
    return rep.finish()


if __name__ == '__main__':
    sys.exit(main())
