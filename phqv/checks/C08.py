"""C08 - enumeration tables are total, unambiguous and parse to the unit meant.

ground  (tables dumped from the current tree vs the enum declarations of the inventory and vs O-unit):
        every enumerator has an abbreviation, abbreviations are unique, Spellings[Abbreviation(e)] = e, every unit has both
        conversion-dispatch entries for float/double/long double; every spelling denotes (O-unit) the same magnitude,
        offset and dimensions as the abbreviation of the enumerator it parses to.
IR      (symbolic execution, -fno-inline, tables built by their own initialisers):
        PhQ::Abbreviation(e) and operator<<(ostream, e) with e symbolic over the declared enumerators never dereference
        an end() iterator and produce exactly the table's string; PhQ::ParseEnumeration<E>(s) for an ARBITRARY byte
        string s returns the table's enumerator when s is a spelling and nullopt otherwise, without UB or exceptions.
"""
import sys
import z3
from .. import harness as H, inventory as INV, core, engine, terms as tm, modes
from ..irsym import summaries as SM, strings as SS
from ..oracle import units as U
from . import common as C, unitdata
from .common import sanitize

PROP = 'C08'
EXTRA = '''
struct phqv_sv { unsigned long n; const char* p; };
extern "C" phqv_sv phqv_any_string();
extern "C" void phqv_emit(const std::string&);
'''


def ground(rep, inv, tb):
    for q, e in sorted(tb.items()):
        decl = inv.enums.get(q, {}).get('enumerators', [])
        vals = e['enumerators']
        ab = {}
        dup = []
        for k, a in e['abbreviations']:
            ab[k] = a
        inv_ab = {}
        for k, a in ab.items():
            if a in inv_ab:
                dup.append((a, k, inv_ab[a]))
            inv_ab[a] = k
        missing = [n for n in decl if vals.get(n) not in ab]
        rep.add(core.ground_ob(PROP, '%s: every enumerator has an abbreviation' % q, 'table-total', '%s: each of the %d declared enumerators is a key of the abbreviation table' % (q, len(decl)),
                               not missing and len(decl) == len(vals), 'enumerators without abbreviation: %s' % missing))
        rep.add(core.ground_ob(PROP, '%s: abbreviations are unique' % q, 'table-injective', '%s: no two enumerators share an abbreviation' % q, not dup, 'shared: %s' % dup[:3]))
        sp = {}
        for s_, k in e['spellings']:
            sp[s_] = k
        bad = [(n, ab.get(vals[n])) for n in decl if vals.get(n) in ab and sp.get(ab[vals[n]]) != vals[n]]
        rep.add(core.ground_ob(PROP, '%s: abbreviations parse back' % q, 'table-roundtrip', '%s: Spellings[Abbreviation(e)] = e for every enumerator' % q, not bad,
                               'abbreviations that do not parse back to their enumerator: %s' % bad[:3]))
        stray = [(s_, k) for s_, k in sp.items() if k not in ab]
        rep.add(core.ground_ob(PROP, '%s: spellings target declared enumerators' % q, 'table-total', '%s: every spelling maps to a declared enumerator' % q, not stray, str(stray[:3])))
        if not q.startswith('Unit::'):
            # no magnitude to compare: a spelling that is, up to case / spaces / underscores / punctuation, the NAME of a
            # declared enumerator (or an abbreviation) must parse to that enumerator
            import re as _re2
            nz = lambda t: _re2.sub(r'[^a-z0-9]', '', t.lower())
            byname = {}
            for n in decl:
                byname.setdefault(nz(n), set()).add(vals[n])
            for k, a in ab.items():
                byname.setdefault(nz(a), set()).add(k)
            wrong = ['%r parses to %s but names %s' % (s_, k, sorted(byname[nz(s_)])) for s_, k in sorted(sp.items())
                     if nz(s_) in byname and len(byname[nz(s_)]) == 1 and k not in byname[nz(s_)]]
            rep.add(core.ground_ob(PROP, '%s: spellings name the enumerator they parse to' % q, 'spelling-name',
                                   '%s: a spelling that equals, up to case and separators, the declared name or the abbreviation of an enumerator parses to that enumerator' % q,
                                   not wrong, '; '.join(wrong[:4])))
        if q.startswith('Unit::'):
            for T in ('f32', 'f64', 'f80'):
                for d in ('to', 'from'):
                    keys = {k for k, nonempty in e['conv_%s_%s' % (d, T)] if nonempty}
                    miss = [n for n in decl if vals.get(n) not in keys]
                    rep.add(core.ground_ob(PROP, '%s: conversion dispatch %s-standard [%s]' % (q, d, T), 'table-total',
                                           '%s: every enumerator has a non-empty %s-standard conversion routine for %s' % (q, d, H.CTYPE[T]), not miss, 'missing: %s' % miss[:5]))
            # O-unit: every spelling denotes what its target's abbreviation denotes
            affine = q == 'Unit::Temperature'
            wrong, unknown = [], []
            for s_, k in sorted(sp.items()):
                if k not in ab:
                    continue
                try:
                    v = U.parse_spelling(s_, e['dimensions'])
                    w = U.parse(ab[k])
                except (U.UnknownUnit, ZeroDivisionError, ValueError) as ex:
                    unknown.append((s_, str(ex)))
                    continue
                if not affine:
                    v = U.UnitVal(v.mag, v.dims, v.pi)
                    w = U.UnitVal(w.mag, w.dims, w.pi)
                if not v.same(w):
                    wrong.append('%r parses to %s (%s) but denotes %.6g x pi^%d SI, not %.6g x pi^%d' % (s_, ab[k], k, float(v.mag), v.pi, float(w.mag), w.pi))
            o = core.ground_ob(PROP, '%s: spellings denote the unit they parse to' % q, 'spelling-magnitude',
                               '%s: each of the %d accepted spellings has (by O-unit) the SI magnitude, offset and dimensions of the abbreviation of the enumerator it parses to' % (q, len(sp)),
                               not wrong, '; '.join(wrong[:4]))
            if unknown and not wrong:
                o.verdict = 'inconclusive'
                o.reason = 'O-unit cannot expand: %s' % unknown[:3]
            rep.add(o)


SEQ_LENGTHS = (2, 3)


def generate(inv, tb):
    ws, obs = [], []
    for q, e in sorted(tb.items()):
        E = 'PhQ::' + q
        tag = sanitize(q)
        vals = sorted(e['enumerators'].values())
        w1 = H.Wrapper('w_abbr_' + tag, 'f64', 0, 'f64', 0,
                       'const std::string_view s = PhQ::Abbreviation(static_cast<%s>(iin[0])); phqv_emit(std::string(s));' % E, n_iin=1, flatten=False,
                       meta={'iin_domain': [vals]})
        w2 = H.Wrapper('w_stream_' + tag, 'f64', 0, 'f64', 0,
                       'std::ostringstream os; { using namespace PhQ; os << static_cast<%s>(iin[0]); } phqv_emit(os.str());' % E, n_iin=1, flatten=False, meta={'iin_domain': [vals]})
        w3 = H.Wrapper('w_parse_' + tag, 'f64', 0, 'f64', 0,
                       'const phqv_sv s = phqv_any_string(); const std::optional<%s> r = PhQ::ParseEnumeration<%s>(std::string_view(s.p, s.n)); iout[0] = r.has_value(); iout[1] = r.has_value() ? (long)*r : -1;' % (E, E),
                       n_iout=2, flatten=False, meta={'max_paths': 20000})
        ws += [w1, w2, w3]
        # two consecutive parses out of the same buffer (contents replaced in between), symbolic bytes: hidden state between
        # lookups - a cache keyed on the caller's view - shows here
        for L in SEQ_LENGTHS:
            fill = lambda off: ' '.join('buf[%d] = (char)iin[%d];' % (i, off + i) for i in range(L))
            body = ('char buf[%d]; %s const std::optional<%s> r1 = PhQ::ParseEnumeration<%s>(std::string_view(buf, %d)); iout[0] = r1.has_value(); iout[1] = r1.has_value() ? (long)*r1 : -1; '
                    '%s const std::optional<%s> r2 = PhQ::ParseEnumeration<%s>(std::string_view(buf, %d)); iout[2] = r2.has_value(); iout[3] = r2.has_value() ? (long)*r2 : -1;' % (
                        L, fill(0), E, E, L, fill(L), E, E, L))
            ws.append(H.Wrapper('w_pseq%d_%s' % (L, tag), 'f64', 0, 'f64', 0, body, n_iout=4, n_iin=2 * L, flatten=False, meta={'max_paths': 20000}))
        obs.append({'id': q, 'q': q, 'abbr': w1.name, 'stream': w2.name, 'parse': w3.name, 'vals': vals,
                    'ab': {str(k): a for k, a in e['abbreviations']}, 'sp': {s_: k for s_, k in e['spellings']}, 'pseq': ['w_pseq%d_%s' % (L, tag) for L in SEQ_LENGTHS]})
    return ws, obs


def worker(ctx):
    ctx.summaries = SM.containers()
    ctx.summaries.update(SM.heap())
    SS.install(ctx.summaries, ctx.unit.mod)
    ctx.init_tables = 'all'
    for d in ctx.spec.payload['obs']:
        engine.guarded(ctx, d['id'], lambda d=d: one(ctx, d))


def emitted(p):
    em = [e for e in p.events if e[0] == 'emit']
    return em[-1][1] if em else None


def one(ctx, d):
    q = d['q']
    k0 = z3.BitVec('k0', 64)
    inrange = z3.Or(*[z3.Extract(7, 0, k0) == v for v in d['vals']])
    for kind, wn, what in (('abbreviation', d['abbr'], 'PhQ::Abbreviation(e)'), ('stream', d['stream'], 'operator<<(ostream, e)')):
        w = ctx.byname[wn]
        r = ctx.result(wn)
        o = ctx.ob('%s %s' % (q, kind), 'lookup-' + kind, 'BIT', '%s: for every declared enumerator e, %s hits the table (no end() dereference) and yields exactly the abbreviation' % (q, what))
        o.key = o.oid
        if r is None or r.error:
            o.reason = ctx.why_missing(wn)
            continue
        it = modes.Bit()
        bad = []
        seen = set()
        for p in r.paths:
            pcz = [it.ev(c) for c in p.pc]
            pin = [tm.sval(c.args[2]) for c in p.pc if c.op == 'icmp' and c.args[0] == 'eq' and tm.is_ic(c.args[2])]
            s_ = emitted(p)
            okp = p.status == 'ret' and not p.ub and s_ is not None and len(pin) == 1 and len(s_) <= 1 and \
                (s_[0] if s_ else b'') == d['ab'].get(str(pin[0]), '\0').encode('utf-8')
            if okp:
                seen.add(pin[0])
            else:
                bad.append(z3.And(*pcz) if pcz else z3.BoolVal(True))
        if set(d['vals']) - seen:
            bad.append(z3.Or(*[z3.Extract(7, 0, k0) == v for v in set(d['vals']) - seen]))
        ctx.decide(o, [inrange, z3.Or(*bad) if bad else z3.BoolVal(False)], w, None, grid=False)
        if o.verdict == 'inconclusive' and o.model:
            # a model here is an enumerator for which the lookup misbehaves: the executed path is the witness
            o.verdict = 'violated'
            o.reason = 'enumerator value %s: lookup does not return its abbreviation (missing table entry: end() is dereferenced)' % o.model[-1:]
            o.replay = core.write_replay(PROP, o.oid, {'kind': 'ground', 'property': PROP, 'obligation': o.oid, 'statement': o.desc, 'observed': o.reason,
                                                      'includes': [], 'wrappers': [], 'impl': None, 'inputs': []})
    # parsing of arbitrary strings
    wn = d['parse']
    r = ctx.result(wn)
    o = ctx.ob('%s parse' % q, 'parse-any-string', 'BIT', '%s: PhQ::ParseEnumeration on an arbitrary byte string returns the table\'s enumerator for each of the %d spellings and nullopt for every other string; no exception, no UB' % (q, len(d['sp'])))
    o.key = o.oid
    if r is None or r.error:
        o.reason = ctx.why_missing(wn)
        return
    wrong = []
    cases = set()
    for p in r.paths:
        ev = [e for e in p.events if e[0] == 'any-string-is']
        if not ev or p.status != 'ret' or p.ub:
            wrong.append('path %s ends in %s %s' % ([e for e in p.events if e[0] == 'any-string-is'], p.status, p.ub[:1]))
            continue
        key = ev[-1][1]
        cases.add(key)
        has, val = p.iout
        if key is None:
            if not (tm.is_ic(has) and has.args[0] == 0):
                wrong.append('a string that is not a spelling parses to something')
        else:
            exp = d['sp'].get(key.decode('utf-8', 'replace'))
            if not (tm.is_ic(has) and has.args[0] == 1 and tm.is_ic(val) and tm.sval(val) == exp):
                wrong.append('%r parses to %s, table says %s' % (key, tm.show(val), exp))
    if len(cases) != len(d['sp']) + 1:
        wrong.append('%d cases explored, %d spellings + none expected' % (len(cases), len(d['sp'])))
    o.syntactic = True
    if wrong:
        o.verdict = 'violated'
        o.reason = '; '.join(wrong[:3])
        o.replay = core.write_replay(PROP, o.oid, {'kind': 'ground', 'property': PROP, 'obligation': o.oid, 'statement': o.desc, 'observed': o.reason,
                                                  'includes': [], 'wrappers': [], 'impl': None, 'inputs': []})
    else:
        o.verdict = 'discharged'
        o.desc += ' [%d paths]' % len(r.paths)


def seq(ctx, d):
    """two parses from one buffer whose bytes are replaced in between: each returns what the table says for the bytes the
    buffer holds at that moment"""
    q = d['q']
    for wn in d['pseq']:
        w = ctx.byname[wn]
        L = w.n_iin // 2
        o = ctx.ob('%s parse sequence, length %d' % (q, L), 'parse-sequence', 'BIT',
                   '%s: two consecutive ParseEnumeration calls on the same %d-byte buffer, its contents replaced in between (all %d bytes symbolic): each call returns the table entry of the bytes it was given, or nothing' % (q, L, 2 * L))
        o.key = o.oid
        r = ctx.result(wn)
        if r is None or r.error:
            o.reason = ctx.why_missing(wn)
            continue
        table = {}
        for sp_, v in d['sp'].items():
            b = sp_.encode('utf-8')
            if len(b) == L:
                table[b] = v
        kb = [z3.Extract(7, 0, z3.BitVec('k%d' % i, 64)) for i in range(2 * L)]

        def expect(off):
            has, val = z3.BitVecVal(0, 64), z3.BitVecVal((1 << 64) - 1, 64)
            for b, v in table.items():
                c = z3.And(*[kb[off + i] == b[i] for i in range(L)])
                has = z3.If(c, z3.BitVecVal(1, 64), has)
                val = z3.If(c, z3.BitVecVal(v & ((1 << 64) - 1), 64), val)
            return [has, val]
        exp = expect(0) + expect(L)
        it = modes.Bit()
        bad = []
        for p in r.paths:
            pcz = [it.ev(c) for c in p.pc]
            if p.status != 'ret' or p.ub or any(t is None for t in p.iout):
                bad.append(z3.And(*pcz) if pcz else z3.BoolVal(True))
                continue
            diffs = [it.ev(a) != b for a, b in zip(p.iout, exp)]
            bad.append(z3.And(*(pcz + [z3.Or(*diffs)])))
        o.desc += ' [%d paths, %d spellings of this length]' % (len(r.paths), len(table))

        def rp(xs, ks):
            kk = [int(v) & 0xFF for v in ks]
            _, got = ctx.unit.call_native(w, [], kk)
            want = []
            for off in (0, L):
                v = table.get(bytes(kk[off:off + L]))
                want += [1, v] if v is not None else [0, -1]
            rp.case['expected_iout'] = want
            rp.case['expected_out'] = []
            return list(got) != want, 'bytes %s then %s: the calls return %s natively, the table says %s' % (bytes(kk[:L]), bytes(kk[L:]), list(got), want)
        rp.case = {'kind': 'values', 'impl': w.name}
        ctx.decide(o, [z3.Or(*bad) if bad else z3.BoolVal(False)], w, rp, grid=False)


def seq_worker(ctx):
    ctx.summaries = SM.containers()
    ctx.summaries.update(SM.heap())
    SS.install(ctx.summaries, ctx.unit.mod)
    ctx.init_tables = 'all'
    for d in ctx.spec.payload['obs']:
        engine.guarded(ctx, d['id'] + ' parse sequence', lambda d=d: seq(ctx, d))


def any_worker(ctx):
    (seq_worker if ctx.spec.payload.get('seq') else worker)(ctx)


def main():
    rep = core.Report(PROP)
    work, inv = C.setup(PROP)
    tb = unitdata.load(work, inv)
    ground(rep, inv, tb)
    incs = C.all_includes(work)
    ws, obs = generate(inv, tb)
    obs = C.filter_obs(obs)
    byw = {w.name: w for w in ws}
    specs = []
    for ci, part in enumerate(engine.chunk(obs, 13)):
        names = [d[k] for d in part for k in ('abbr', 'stream', 'parse')]
        specs.append(engine.UnitSpec('c08_%d' % ci, incs + ['sstream'], [byw[x] for x in names], {'obs': part, 'prop': PROP},
                                     extra_src=EXTRA, extra_clang=['-fno-inline'], native=False))
    for ci, part in enumerate(engine.chunk(obs, 8)):
        names = [n for d in part for n in d['pseq']]
        specs.append(engine.UnitSpec('c08_seq_%d' % ci, incs + ['sstream'], [byw[x] for x in names], {'obs': part, 'prop': PROP, 'seq': True},
                                     extra_src=EXTRA, extra_clang=['-fno-inline'], native=True))
    results = engine.run_units(specs, any_worker, work)
    engine.collect(rep, results)
    rep.bounds = {'enumeration_types': len(tb), 'enumerators': sum(len(e['enumerators']) for e in tb.values()),
                  'spellings': sum(len(e['spellings']) for e in tb.values()),
                  'strings': 'ParseEnumeration input: an arbitrary byte string, modelled as "equals spelling i" for every i, or "equals none"'}
    rep.assumptions = ['summaries: std::map / std::unordered_map construction and find over abstract tables built by executing the tables\' own dynamic initialisers; std::string/ostringstream summaries (phqv/irsym/strings.py)',
                       'std::hash<string_view> and operator== of string_view are total functions of the bytes (contract), so the byte content of a non-spelling is irrelevant',
                       'O-unit (phqv/oracle/units.py) gives the meaning of each spelling; ambiguous ASCII atoms (C, lb) are read in the sense that matches the type\'s dimensions',
                       'unit-system and constitutive-model spellings have no magnitude: totality / injectivity / round trip only']
    rep.explanation = 'table contents are compared with the enum declarations and with the O-unit reading of every spelling; the lookups themselves are executed symbolically for every enumerator and for an arbitrary input string'
    return rep.finish()


if __name__ == '__main__':
    sys.exit(main())
