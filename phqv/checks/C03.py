"""C03 - every relation between quantities is dimensionally homogeneous (REAL mode).

Population (recomputed from the inventory of the current tree): every public constructor whose parameters are all
quantities, every binary operator between quantities / numbers, every member function returning a quantity.
For each relation f and each of the seven base dimensions i separately (rescalings of different base units
commute, so single-dimension homogeneity for all i is joint homogeneity):
      for all inputs and all sigma > 0:   f(sigma^(2 d_A[i]) a, sigma^(2 d_B[i]) b, ...) = sigma^(2 d_C[i]) f(a, b, ...)
component-wise over the reals (sigma^2 is the unit factor so that square roots stay polynomial); the exponent
vectors d_X are read from the executed IR of X::Dimensions().  Plus the ground facts dim(A*B) = dim A + dim B,
dim(A/B) = dim A - dim B, dim(A+-B) = dim A = dim B.
"""
import sys
import z3
from .. import harness as H, inventory as INV, core, engine, terms as tm, modes
from ..terms import mk
from . import common as C
from .common import CT, cxx, load_arg, store_res, sanitize, OPNAME

PROP = 'C03'
DIMS = ['Time', 'Length', 'Mass', 'ElectricCurrent', 'Temperature', 'SubstanceAmount', 'LuminousIntensity']


def relations(inv):
    """-> list of dict(id, kind, args [(class or None, shape)], res (class or None, shape), expr)"""
    sh = C.Shapes(inv)
    out = []
    qs = inv.quantity_names()
    math = set(INV.MATH)

    def plain(ps):
        # the four plain vector/tensor classes carry no dimension set: relations taking or returning them are
        # outside this property's population (they are covered by C09/C10)
        return any(p is not None and p[0] in math for p in ps)
    for q in qs:
        c = inv.classes[q]
        n = c['shape']
        k = 0
        for m in c['members']:
            if m['access'] != 'public' or m.get('template'):
                continue
            k += 1
            if m['kind'] == 'ctor':
                if not m['params'] or m.get('defaulted') or m.get('deleted'):
                    continue
                ps = [sh.of(p['type']) for p in m['params']]
                if None in ps or all(p[0] is None for p in ps):
                    continue
                if len(ps) == 1 and ps[0][0] == q:
                    continue
                if any(p[0] is None for p in ps) or plain(ps):
                    continue
                out.append({'id': '%s(%s)' % (q, ', '.join(p[0] for p in ps)), 'kind': 'ctor', 'args': ps, 'res': (q, n),
                            'expr': '%s(%s)' % ('RES', ', '.join('a%d' % i for i in range(len(ps)))), 'k': k,
                            'implicit': len(ps) == 1 and 'explicit' not in m['quals']})
            elif m['kind'] == 'operator' and m['op'] in ('+', '-', '*', '/') and len(m['params']) == 1:
                pb = sh.of(m['params'][0]['type'])
                pr = sh.of(m['ret'])
                if pb is None or pr is None or plain([pb, pr]):
                    continue
                out.append({'id': '%s %s %s -> %s' % (q, m['op'], pb[0] or 'number', pr[0] or 'number'), 'kind': 'op', 'op': m['op'],
                            'args': [(q, n), pb], 'res': pr, 'expr': 'a0 %s a1' % m['op'], 'k': k})
            elif m['kind'] == 'method' and 'static' not in m['quals'] and m['name'] not in ('Value', 'MutableValue', 'StaticValue', 'Dimensions', 'Unit'):
                pr = sh.of(m['ret'].replace('PhQ::', '').replace('const ', '').replace('&', '').strip())
                if pr is None or pr[0] is None:
                    continue
                ps = [sh.of(p['type'].replace('PhQ::', '')) for p in m['params']]
                if None in ps or plain(ps + [pr]):
                    continue
                out.append({'id': '%s::%s(%s) -> %s' % (q, m['name'], ', '.join(p[0] or 'number' for p in ps), pr[0]), 'kind': 'method',
                            'args': [(q, n)] + ps, 'res': pr,
                            'expr': 'a0.%s(%s)' % (m['name'], ', '.join('a%d' % (i + 1) for i in range(len(ps)))), 'k': k})
    return out


def generate(inv, T):
    ws, obs = [], []
    rels = relations(inv)
    classes = set()
    for j, r in enumerate(rels):
        lines = []
        off = 0
        for i, (q, n) in enumerate(r['args']):
            lines.append(load_arg('a%d' % i, q, T, off, n))
            off += n
            if q:
                classes.add(q)
        qr, nr = r['res']
        if qr:
            classes.add(qr)
        lines.append(store_res(r['expr'].replace('RES', cxx(qr, T)), qr, T, nr))
        name = 'w_rel_%d_%s' % (j, T)
        ws.append(H.Wrapper(name, T, off, T, nr, '\n'.join(lines)))
        d = dict(r)
        d['w'] = name
        d['id'] = r['id'] + ' [%s]' % CT[T]
        obs.append(d)
    dimw = {}
    for q in sorted(classes):
        body = 'const PhQ::Dimensions& d = %s::Dimensions();\n' % cxx(q, T) + '\n'.join(
            'iout[%d] = d.%s().Value();' % (i, dn) for i, dn in enumerate(DIMS))
        w = H.Wrapper('w_dims_%s_%s' % (sanitize(q), T), T, 0, T, 0, body, n_iout=7)
        ws.append(w)
        dimw[q] = w.name
    return ws, obs, dimw


def worker(ctx):
    T = ctx.spec.payload['T']
    dimw = ctx.spec.payload['dimw']
    dims = {None: [0] * 7}
    ctx.dim_errors = {}
    for q, wn in dimw.items():
        if wn not in ctx.byname:
            continue
        r = ctx.result(wn)
        if r is None or r.error or not all(t is not None and tm.is_ic(t) for t in r.iout):
            ctx.dim_errors[q] = ctx.why_missing(wn) if (r is None or r.error) else 'dimension exponents are not constants in the IR'
            continue
        dims[q] = [tm.sval(tm.mk('trunc', 'i8', t)) for t in r.iout]
    for d in ctx.spec.payload['obs']:
        engine.guarded(ctx, d['id'], lambda d=d: one(ctx, T, d, dims))


def one(ctx, T, d, dims):
    w = ctx.byname[d['w']]
    res = ctx.result(d['w'])
    o = ctx.ob(d['id'], 'homogeneity', 'REAL', '%s: rescaling each base unit by sigma^2 rescales every result component by sigma^(2 * declared exponent)' % d['id'])
    o.key = d['id']
    need = [q for q, n in d['args']] + [d['res'][0]]
    miss = [q for q in need if q not in dims]
    if miss:
        o.reason = 'declared dimensions of %s unavailable: %s' % (miss[0], getattr(ctx, 'dim_errors', {}).get(miss[0], '?'))
        return
    if res is None or res.error or any(t is None for t in res.out):
        o.reason = ctx.why_missing(d['w'])
        return
    da = [dims[q] for q, n in d['args']]
    dr = dims[d['res'][0]]
    # ground facts about the declared dimension sets
    if d['kind'] == 'ctor' and len(d['args']) == 1:
        # a one-argument constructor from another quantity type that is not `explicit` is an implicit conversion: it takes
        # part in the overload resolution of every operator, so `Energy * Time` would silently mean `Energy * Frequency`
        # - an undeclared relation whose result dimensions are not the sum of the operands' dimensions
        g = ctx.ob(d['id'] + ' [explicit]', 'implicit-conversion', 'REAL', '%s: a converting constructor between quantity types of different dimensions is explicit' % d['id'])
        g.key = g.oid
        g.syntactic = True
        if d.get('implicit') and da[0] != dr:
            g.verdict = 'violated'
            g.reason = 'the constructor is not explicit: a %s converts silently to a %s although their dimension sets differ (%s vs %s, order T,L,M,I,Theta,N,J)' % (d['args'][0][0], d['res'][0], da[0], dr)
            g.replay = core.write_replay(PROP, g.oid, {'kind': 'ground', 'property': PROP, 'obligation': g.oid, 'statement': g.desc, 'observed': g.reason,
                                                      'includes': [], 'wrappers': [], 'impl': None, 'inputs': []})
        else:
            g.verdict = 'discharged'
    if d['kind'] == 'op':
        g = ctx.ob(d['id'] + ' [dimension sets]', 'dimension-arithmetic', 'REAL', '%s: the result type\'s dimension set is the %s of the operand types\' sets' % (
            d['id'], {'*': 'sum', '/': 'difference', '+': 'common value', '-': 'common value'}[d['op']]))
        g.key = g.oid
        A, B = da
        if d['op'] == '*':
            exp = [a + b for a, b in zip(A, B)]
        elif d['op'] == '/':
            exp = [a - b for a, b in zip(A, B)]
        else:
            exp = A
        ok = exp == dr and (d['op'] in '*/' or A == B)
        v, _, secs, smt = core.solve([z3.Or(*[z3.IntVal(x) != z3.IntVal(y) for x, y in zip(exp, dr)])] if not ok else [z3.BoolVal(False)], 5000, want_smt=False)
        g.secs = secs
        g.syntactic = True
        if ok:
            g.verdict = 'discharged'
        else:
            g.verdict = 'violated'
            g.reason = 'declared dimensions: operands %s, %s; result %s; expected %s (order T,L,M,I,Theta,N,J)' % (A, B, dr, exp)
            g.replay = core.write_replay(PROP, g.oid, {'kind': 'ground', 'property': PROP, 'obligation': g.oid, 'statement': g.desc, 'observed': g.reason,
                                                      'includes': [], 'wrappers': [], 'impl': None, 'inputs': []})
    # homogeneity, one base dimension at a time
    sig, tau = z3.Real('sigma'), z3.Real('tau')
    total = 0.0
    nin = w.n_in
    for i in range(7):
        if all(x[i] == 0 for x in da) and dr[i] == 0:
            continue

        def fac(e):
            e2 = 2 * e
            b = sig if e2 >= 0 else tau
            r = z3.RealVal(1)
            for _ in range(abs(e2)):
                r = r * b
            return r
        # scaled inputs as terms: x_j * S_j where S_j are fresh argument terms bound to sigma powers
        sub = {}
        bind = []
        off = 0
        for ai, (q, n) in enumerate(d['args']):
            if da[ai][i] != 0:
                sname = 'S%d' % ai
                bind.append(z3.Real(sname) == fac(da[ai][i]))
                for j in range(n):
                    sub['x%d' % (off + j)] = mk('fmul', T, tm.arg(T, 'x%d' % (off + j)), tm.arg(T, sname))
            off += n
        it1 = modes.Real(prefix='p')
        it2 = modes.Real(prefix='q')
        diffs = []
        try:
            for t in res.out:
                base, scaled = t, tm.substitute(t, sub)
                cs = []
                if shell(t, cs) and cs and (t.op == 'call' or (dr[i] == 0 and has_libm(t))):
                    # t is a function (selects on comparisons with constants, uninterpreted libm calls) of the arithmetic
                    # cores cs only - e.g. the clamped arc cosine select(c <= 1, select(c >= -1, acos(c), pi), 0): it is
                    # invariant as soon as every core is, and cannot have a non-zero degree
                    if dr[i] != 0:
                        diffs.append(z3.BoolVal(True))
                        continue
                    for c in cs:
                        diffs.append(it1.ev(c) != it2.ev(tm.substitute(c, sub)))
                    continue
                diffs.append(it2.ev(scaled) != fac(dr[i]) * it1.ev(base))
        except modes.ModeError as e:
            o.reason = str(e)
            o.verdict = 'inconclusive'
            return
        defined = it1.side + it2.side
        cons = [sig > 0, tau > 0, sig * tau == 1] + bind + it1.defs + it2.defs + defined + [z3.Or(*diffs)]
        o.hash = None
        ctx.decide(o, cons, w, homog_replay(ctx, w, d, da, dr, i), grid=False, want_smt=(i == 1 or total == 0.0))
        total += o.secs
        if o.verdict != 'discharged':
            o.reason = 'base dimension %s: %s' % (DIMS[i], o.reason)
            break
    else:
        o.verdict = 'discharged'
    o.secs = total
    if res.ub:
        u = ctx.ob(d['id'] + ' [ub]', 'ub-side-condition', 'BIT', d['id'] + ': no undefined behaviour on any path')
        u.reason = 'possible UB: %s %s' % (res.ub[0][1], res.ub[0][2])


def shell(t, acc):
    """True when t is not itself an arithmetic expression but a select / comparison-with-constant / uninterpreted libm
    shell around arithmetic cores, which are appended to acc (deduplicated by identity)"""
    if not isinstance(t, tm.T):
        return False
    if t.op == 'select':
        for a in t.args:
            leaf(a, acc)
        return True
    if t.op == 'call' and t.args[0] not in ('sqrt', 'fabs'):
        for a in t.args[1:]:
            leaf(a, acc)
        return True
    return False


def has_libm(t):
    """does the shell of t contain an uninterpreted libm call (so that the generic real-arithmetic query cannot apply)?"""
    if not isinstance(t, tm.T):
        return False
    if t.op == 'call' and t.args[0] not in ('sqrt', 'fabs'):
        return True
    if t.op == 'select':
        return any(has_libm(a) for a in t.args[1:])
    return False


def leaf(t, acc):
    if not isinstance(t, tm.T) or t.op in ('fc', 'ic'):
        return
    if t.op == 'fcmp':
        for a in t.args[1:]:
            leaf(a, acc)
        return
    if shell(t, acc):
        return
    if all(t is not c for c in acc):
        acc.append(t)


def homog_replay(ctx, w, d, da, dr, i):
    """native replay: evaluate f at x and at the rescaled x with sigma^2 = 4 (exact in binary) and compare"""
    import numpy as np

    def rp(xs):
        t = H.NPT[w.in_ty]
        base = [t(x) if np.isfinite(x) and x != 0 else t(1.5) for x in xs]
        tries = [base, [t(1.25 + 0.5 * j) for j in range(len(xs))], [t(-2.75 + 1.5 * j) for j in range(len(xs))]]
        for xs0 in tries:
            scaled = []
            off = 0
            for ai, (q, n) in enumerate(d['args']):
                f = t(4.0) ** t(da[ai][i])
                for j in range(n):
                    scaled.append(xs0[off + j] * f)
                off += n
            o1, _ = ctx.unit.call_native(w, xs0)
            o2, _ = ctx.unit.call_native(w, scaled)
            fr = t(4.0) ** t(dr[i])
            for k in range(len(o1)):
                a, b = o1[k] * fr, o2[k]
                if not (np.isfinite(a) and np.isfinite(b)):
                    continue
                tol = 64 * np.finfo(H.NPT[w.out_ty]).eps * max(abs(a), abs(b), np.finfo(t).tiny)
                if abs(a - b) > tol:
                    rp.case['inputs_override'] = [core.hexf(v) for v in xs0]
                    return True, ('base dimension %s rescaled by 4: f(x)=%r scaled by %r gives %r but f(rescaled x)=%r (component %d), inputs %s; declared exponents operands %s result %s'
                                  % (DIMS[i], o1[k], fr, a, b, k, [float(v) for v in xs0], [x[i] for x in da], dr[i]))
        return False, 'rescaling by 4 reproduced no difference'
    rp.case = {'kind': 'observed', 'impl': w.name}
    return rp


def main():
    rep = core.Report(PROP)
    work, inv = C.setup(PROP)
    incs = C.all_includes(work)
    types = ['f64'] if core.tier() == 'quick' else C.TYPES
    specs = []
    total = 0
    for T in types:
        ws, obs, dimw = generate(inv, T)
        obs = C.filter_obs(obs)
        byw = {w.name: w for w in ws}
        nchunk = 16 if len(types) == 1 else 6
        for ci, part in enumerate(engine.chunk(obs, nchunk)):
            need = set()
            for d in part:
                for q, n in d['args'] + [d['res']]:
                    if q:
                        need.add(q)
            names = [d['w'] for d in part] + [dimw[q] for q in sorted(need)]
            total += len(names)
            specs.append(engine.UnitSpec('c03_%s_%d' % (T, ci), incs, [byw[x] for x in names],
                                         {'T': T, 'obs': part, 'prop': PROP, 'dimw': {q: dimw[q] for q in need}}))
    results = engine.run_units(specs, worker, work)
    engine.collect(rep, results)
    rep.bounds = {'numeric_types': types, 'wrappers': total, 'relations': sum(len(s.payload['obs']) for s in specs),
                  'inputs': 'all real operand values (where defined) and all sigma > 0, one base dimension at a time'}
    rep.assumptions = ['exact real arithmetic (REAL): homogeneity is an algebraic property of the formula; rounding is the subject of C04/C05/C18',
                       'declared exponents are the constants clang folds from X::Dimensions()',
                       'IR of clang 14 at -O1; quick tier analyses the double instantiation (the relations are templates over the numeric type), thorough all three',
                       'libm functions other than sqrt/fabs are uninterpreted: their arguments must be degree-0 homogeneous']
    rep.explanation = 'every relation found by the inventory is executed symbolically and shown, over the reals with z3 nlsat, to rescale by exactly the factor its declared result dimensions predict'
    return rep.finish()


if __name__ == '__main__':
    sys.exit(main())
