"""C04 - arithmetic on quantities is exactly arithmetic on their SI values (BIT mode).

For every operator the inventory finds (member operators of all quantity classes, free number*quantity
operators, operators of the four vector/tensor classes) a wrapper from raw stored values to raw stored values is
lowered to IR, executed symbolically, and the resulting terms are compared bit-precisely with
  * the explicit component-wise IEEE expression in written order (simple shapes), or
  * the same operator applied to the operands' Value() objects (matrix-vector shapes),
compound assignments are one inductive step from an arbitrary stored pre-state, constructor twins are compared
with their operators, and the std:: math overloads with the function node of the stored number.
"""
import sys
from .. import harness as H, inventory as INV, core, engine, terms as tm
from ..terms import mk
from . import common as C
from .common import CT, cxx, load_arg, store_res, sanitize, OPNAME, FOP

PROP = 'C04'
MATHFN = ['abs', 'sqrt', 'cbrt', 'exp', 'log', 'log2', 'log10']


def generate(inv, T):
    sh = C.Shapes(inv)
    ws = []
    obs = []

    def add(w):
        ws.append(w)
        return w.name

    # ---- quantity member operators -------------------------------------------------------------
    for q in inv.quantity_names() + [m for m in ('PlanarVector', 'Vector', 'SymmetricDyad', 'Dyad') if m in inv.classes]:
        c = inv.classes[q]
        sa = c['shape']
        k = 0
        for m in c['members']:
            if m['kind'] != 'operator' or m['access'] != 'public' or m['op'] not in OPNAME or len(m['params']) != 1:
                continue
            if m['op'] in ('==', '!=', '<', '>', '<=', '>='):
                continue
            k += 1
            pb = sh.of(m['params'][0]['type'])
            if m.get('template') and 'OtherNumericType' in (m['template'] or ''):
                if m['params'][0]['type'] == 'OtherNumericType':
                    pb = (None, 1)
            if pb is None:
                obs.append({'kind': 'skip', 'id': '%s::operator%s(%s)' % (q, m['op'], m['params'][0]['type']),
                            'why': 'operand type outside the inventory of value shapes'})
                continue
            qb, sb = pb
            base = 'w_%s_%s_%s_%d_%s' % (sanitize(q), OPNAME[m['op']], sanitize(qb or 'num'), k, T)
            decl = '%s::operator%s(%s) [%s]' % (q, m['op'], m['params'][0]['type'], CT[T])
            if m['op'] in ('+', '-', '*', '/'):
                pr = sh.of(m['ret'])
                if pr is None:
                    obs.append({'kind': 'skip', 'id': decl, 'why': 'result type %s outside the inventory' % m['ret']})
                    continue
                qr, sr = pr
                body = '\n'.join([load_arg('a', q, T, 0, sa), load_arg('b', qb, T, sa, sb),
                                  store_res('a %s b' % m['op'], qr, T, sr)])
                impl = add(H.Wrapper(base, T, sa + sb, T, sr, body))
                o = {'kind': 'binary', 'id': decl, 'impl': impl, 'op': m['op'], 'sa': sa, 'sb': sb, 'sr': sr,
                     'q': q, 'qb': qb, 'qr': qr}
                # value-level reference for shapes without an explicit component-wise reading
                va = 'a.Value()' if q in inv.classes and inv.classes[q]['kind'] == 'quantity' else 'a'
                vb = 'b' if qb is None or inv.classes[qb]['kind'] != 'quantity' else 'b.Value()'
                vcls = INV.VALUE_CLASS.get(sr)
                rbody = '\n'.join([load_arg('a', q, T, 0, sa), load_arg('b', qb, T, sa, sb),
                                   store_res('%s %s %s' % (va, m['op'], vb), vcls, T, sr)])
                if explicit_spec(m['op'], sa, sb, sr, T) is None:
                    if sa == 1 and sb == 1:
                        # scalar x scalar -> tensor is a definitional relation (e.g. (beta dT / 3) I), not arithmetic: C18
                        ws.pop()
                        continue
                    o['ref'] = add(H.Wrapper(base + '_ref', T, sa + sb, T, sr, rbody))
                obs.append(o)
                # constructor twins
                if qr is not None and qr in inv.classes:
                    for cm in inv.classes[qr]['members']:
                        if cm['kind'] != 'ctor' or cm['access'] != 'public' or len(cm['params']) != 2 or cm.get('template'):
                            continue
                        pts = [sh.of(p['type']) for p in cm['params']]
                        if None in pts:
                            continue
                        names = [p[0] for p in pts]
                        if names == [q, qb] and qb is not None:
                            order = 'a, b'
                        elif names == [qb, q] and qb is not None and q != qb:
                            order = 'b, a'
                        else:
                            continue
                        tb = '\n'.join([load_arg('a', q, T, 0, sa), load_arg('b', qb, T, sa, sb),
                                        store_res('%s(%s)' % (cxx(qr, T), order), qr, T, sr)])
                        tw = add(H.Wrapper(base + '_twin_' + order.replace(', ', ''), T, sa + sb, T, sr, tb))
                        obs.append({'kind': 'twin', 'id': '%s(%s) vs %s' % (qr, order, decl), 'impl': impl, 'twin': tw})
            else:
                body = '\n'.join([load_arg('a', q, T, 0, sa), load_arg('b', qb, T, sa, sb),
                                  'a %s b;' % m['op'], 'phqv::put(out, a);'])
                impl = add(H.Wrapper(base, T, sa + sb, T, sa, body))
                obs.append({'kind': 'compound', 'id': decl, 'impl': impl, 'op': m['op'][0], 'sa': sa, 'sb': sb, 'q': q, 'qb': qb})
                # aliased operands: the right-hand side is (part of) the object being assigned to
                if qb is None and sb == 1:
                    ab = '\n'.join([load_arg('a', q, T, 0, sa),
                                    'a %s *reinterpret_cast<const %s*>(static_cast<const void*>(&a));' % (m['op'], CT[T]), 'phqv::put(out, a);'])
                    ai = add(H.Wrapper(base + '_alias', T, sa, T, sa, ab))
                    obs.append({'kind': 'alias', 'id': decl + ' with the number bound to the first stored component of the same object', 'impl': ai,
                                'op': m['op'][0], 'sa': sa, 'how': 'first'})
                elif qb == q:
                    ab = '\n'.join([load_arg('a', q, T, 0, sa), 'a %s a;' % m['op'], 'phqv::put(out, a);'])
                    ai = add(H.Wrapper(base + '_self', T, sa, T, sa, ab))
                    obs.append({'kind': 'alias', 'id': decl + ' applied to the object itself (a %s a)' % m['op'], 'impl': ai, 'op': m['op'][0], 'sa': sa, 'how': 'self'})
    # ---- free operators number * quantity -------------------------------------------------------
    k = 0
    for f in inv.free_ops:
        if f['op'] not in ('*', '/', '+', '-') or len(f['params']) != 2:
            continue
        p0, p1 = sh.of(f['params'][0]['type']), sh.of(f['params'][1]['type'])
        pr = sh.of(f['ret'])
        if p0 is None or p1 is None or pr is None:
            continue
        k += 1
        (q0, s0), (q1, s1), (qr, sr) = p0, p1, pr
        base = 'w_free_%s_%s_%s_%d_%s' % (OPNAME[f['op']], sanitize(q0 or 'num'), sanitize(q1 or 'num'), k, T)
        body = '\n'.join([load_arg('a', q0, T, 0, s0), load_arg('b', q1, T, s0, s1), store_res('a %s b' % f['op'], qr, T, sr)])
        impl = add(H.Wrapper(base, T, s0 + s1, T, sr, body))
        o = {'kind': 'binary', 'id': 'operator%s(%s, %s) [%s]' % (f['op'], f['params'][0]['type'], f['params'][1]['type'], CT[T]),
             'impl': impl, 'op': f['op'], 'sa': s0, 'sb': s1, 'sr': sr, 'q': q0, 'qb': q1, 'qr': qr}
        if explicit_spec(f['op'], s0, s1, sr, T) is None:
            va = 'a' if q0 is None or inv.classes[q0]['kind'] != 'quantity' else 'a.Value()'
            vb = 'b' if q1 is None or inv.classes[q1]['kind'] != 'quantity' else 'b.Value()'
            rbody = '\n'.join([load_arg('a', q0, T, 0, s0), load_arg('b', q1, T, s0, s1),
                               store_res('%s %s %s' % (va, f['op'], vb), INV.VALUE_CLASS.get(sr), T, sr)])
            o['ref'] = add(H.Wrapper(base + '_ref', T, s0 + s1, T, sr, rbody))
        obs.append(o)
    # ---- vector/tensor free operators (templates over two numeric types: written out here) -------
    for mc, n in (('PlanarVector', 2), ('Vector', 3), ('SymmetricDyad', 6), ('Dyad', 9)):
        if mc not in inv.classes:
            continue
        for op, qa, qb_, sa, sb in (('+', mc, mc, n, n), ('-', mc, mc, n, n), ('*', mc, None, n, 1), ('*', None, mc, 1, n), ('/', mc, None, n, 1)):
            base = 'w_math_%s_%s_%s_%s' % (mc, OPNAME[op], 'l' if qa is None else 'r' if qb_ is None else 'b', T)
            body = '\n'.join([load_arg('a', qa, T, 0, sa), load_arg('b', qb_, T, sa, sb), store_res('a %s b' % op, mc, T, n)])
            impl = add(H.Wrapper(base, T, sa + sb, T, n, body))
            obs.append({'kind': 'binary', 'id': 'operator%s(%s, %s) [%s]' % (op, qa or 'number', qb_ or 'number', CT[T]),
                        'impl': impl, 'op': op, 'sa': sa, 'sb': sb, 'sr': n, 'q': qa, 'qb': qb_, 'qr': mc})
    # ---- std:: math overloads on dimensionless scalars ------------------------------------------
    for q in inv.quantity_names():
        c = inv.classes[q]
        if c.get('basename') != 'DimensionlessScalar':
            continue
        for fn in MATHFN:
            base = 'w_std_%s_%s_%s' % (fn, sanitize(q), T)
            body = '\n'.join([load_arg('a', q, T, 0, 1), 'out[0] = std::%s(a);' % fn])
            impl = add(H.Wrapper(base, T, 1, T, 1, body))
            obs.append({'kind': 'mathfn', 'id': 'std::%s(%s) [%s]' % (fn, q, CT[T]), 'impl': impl, 'fn': fn})
        base = 'w_std_pow_%s_%s' % (sanitize(q), T)
        body = '\n'.join([load_arg('a', q, T, 0, 1), 'out[0] = std::pow(a, in[1]);'])
        impl = add(H.Wrapper(base, T, 2, T, 1, body))
        obs.append({'kind': 'mathfn', 'id': 'std::pow(%s, number) [%s]' % (q, CT[T]), 'impl': impl, 'fn': 'pow'})
        # exponents of another arithmetic type: the overload must hand the exponent on unchanged (std::pow promotes)
        for E, src in (('float', 'static_cast<float>(in[1])'), ('double', 'static_cast<double>(in[1])'), ('long double', 'static_cast<long double>(in[1])'),
                       ('int', 'static_cast<int>(iin[0])'), ('long long', 'static_cast<long long>(iin[0])')):
            if E == CT[T]:
                continue
            tag = E.replace(' ', '')
            niin = 1 if E in ('int', 'long long') else 0
            bi = '\n'.join([load_arg('a', q, T, 0, 1), 'const %s e = %s;' % (E, src), 'out[0] = std::pow(a, e);'])
            br = '\n'.join([load_arg('a', q, T, 0, 1), 'const %s e = %s;' % (E, src), 'out[0] = static_cast<%s>(std::pow(a.Value(), e));' % CT[T]])
            wi = add(H.Wrapper(base + '_' + tag, T, 2, T, 1, bi, n_iin=niin))
            wr = add(H.Wrapper(base + '_' + tag + '_ref', T, 2, T, 1, br, n_iin=niin))
            obs.append({'kind': 'powmix', 'id': 'std::pow(%s, %s) [%s]' % (q, E, CT[T]), 'impl': wi, 'ref': wr})
    return ws, obs


def explicit_spec(op, sa, sb, sr, T):
    """component-wise reading of `a op b` in written order, or None when the shapes are not component-wise"""
    a = [tm.arg(T, 'x%d' % i) for i in range(sa)]
    b = [tm.arg(T, 'x%d' % i) for i in range(sa, sa + sb)]
    f = FOP[op]
    if op in ('+', '-'):
        if sa == sb == sr:
            return [mk(f, T, a[i], b[i]) for i in range(sr)]
        return None
    if sa == sr and sb == 1:
        return [mk(f, T, a[i], b[0]) for i in range(sr)]
    if op == '*' and sa == 1 and sb == sr:
        return [mk(f, T, a[0], b[i]) for i in range(sr)]
    return None


def worker(ctx):
    T = ctx.spec.payload['T']
    for d in ctx.spec.payload['obs']:
        engine.guarded(ctx, d['id'], lambda d=d: one(ctx, T, d))


def one(ctx, T, d):
    if True:
        if d['kind'] == 'skip':
            o = ctx.ob(d['id'], 'skipped', 'BIT', d['id'])
            o.reason = d['why']
            return
        w = ctx.byname[d['impl']]
        r = ctx.result(d['impl'])
        if d['kind'] == 'binary':
            o = ctx.ob(d['id'], 'operator', 'BIT', '%s: stored result == correctly rounded component-wise %s of the stored operands' % (d['id'], d['op']))
            if r is None or r.error or any(t is None for t in r.out):
                o.reason = ctx.why_missing(d['impl'])
                return
            spec = explicit_spec(d['op'], d['sa'], d['sb'], d['sr'], T)
            if spec is not None:
                ctx.bit_equal(o, r.out, spec, w, key=d['id'], replay=ctx.native_term_replay(w, spec))
            else:
                rr = ctx.result(d['ref'])
                o.desc = '%s: stored result == the same operator applied to the operands\' Value() objects' % d['id']
                if rr is None or rr.error:
                    o.reason = 'reference: ' + ctx.why_missing(d['ref'])
                    return
                ctx.bit_equal(o, r.out, rr.out, w, key=d['id'], replay=ctx.native_pair_replay(w, ctx.byname[d['ref']]))
            check_ub(ctx, d, r)
        elif d['kind'] == 'compound':
            o = ctx.ob(d['id'], 'compound-assignment', 'BIT',
                       '%s: from an arbitrary stored pre-state v, v %s= b leaves exactly v %s b (one inductive step)' % (d['id'], d['op'], d['op']))
            if r is None or r.error or any(t is None for t in r.out):
                o.reason = ctx.why_missing(d['impl'])
                return
            spec = explicit_spec(d['op'], d['sa'], d['sb'], d['sa'], T)
            if spec is None:
                o.reason = 'no component-wise reading for shapes %d,%d' % (d['sa'], d['sb'])
                return
            ctx.bit_equal(o, r.out, spec, w, key=d['id'], replay=ctx.native_term_replay(w, spec))
            check_ub(ctx, d, r)
        elif d['kind'] == 'powmix':
            o = ctx.ob(d['id'], 'math-overload', 'BIT', '%s: identical to std::pow of the stored number with the exponent in its own type' % d['id'])
            rr = ctx.result(d['ref'])
            if r is None or r.error or rr is None or rr.error or r.out[0] is None or rr.out[0] is None:
                o.reason = ctx.why_missing(d['impl'] if (r is None or r.error) else d['ref'])
                return
            ctx.bit_equal(o, r.out, rr.out, w, key=d['id'], replay=ctx.native_pair_replay(w, ctx.byname[d['ref']]))
        elif d['kind'] == 'alias':
            o = ctx.ob(d['id'], 'compound-assignment-aliased', 'BIT',
                       '%s: every component is combined with the ORIGINAL value of the aliased operand' % d['id'])
            if r is None or r.error or any(t is None for t in r.out):
                o.reason = ctx.why_missing(d['impl'])
                return
            a = [tm.arg(T, 'x%d' % i) for i in range(d['sa'])]
            spec = [mk(FOP[d['op']], T, a[i], a[0] if d['how'] == 'first' else a[i]) for i in range(d['sa'])]
            ctx.bit_equal(o, r.out, spec, w, key=d['id'], replay=ctx.native_term_replay(w, spec))
        elif d['kind'] == 'twin':
            o = ctx.ob(d['id'], 'constructor-twin', 'BIT', '%s: constructor and operator return identical bits' % d['id'])
            rt = ctx.result(d['twin'])
            if r is None or r.error or rt is None or rt.error:
                o.reason = ctx.why_missing(d['impl'] if (r is None or r.error) else d['twin'])
                return
            ctx.bit_equal(o, r.out, rt.out, w, key=d['id'], replay=ctx.native_pair_replay(w, ctx.byname[d['twin']]))
        elif d['kind'] == 'mathfn':
            o = ctx.ob(d['id'], 'math-overload', 'BIT', '%s returns exactly that function of the stored number' % d['id'])
            if r is None or r.error or r.out[0] is None:
                o.reason = ctx.why_missing(d['impl'])
                return
            x0 = tm.arg(T, 'x0')
            fn = 'fabs' if d['fn'] == 'abs' else d['fn']
            spec = [mk('call', T, fn, x0, tm.arg(T, 'x1'))] if fn == 'pow' else [mk('call', T, fn, x0)]
            ctx.bit_equal(o, r.out, spec, w, key=d['id'], replay=ctx.native_term_replay(w, spec))


def check_ub(ctx, d, r):
    if r.ub:
        o = ctx.ob(d['id'] + ' [ub]', 'ub-side-condition', 'BIT', d['id'] + ': no undefined behaviour on any path')
        o.verdict = 'inconclusive'
        o.reason = 'possible UB: %s %s' % (r.ub[0][1], r.ub[0][2])


def main():
    rep = core.Report(PROP)
    work, inv = C.setup(PROP)
    incs = C.all_includes(work)
    types = C.numeric_types()
    specs = []
    nchunk = {'f64': 8, 'f32': 4, 'f80': 4} if len(types) == 3 else {'f64': 16}
    total = 0
    for T in types:
        ws, obs = generate(inv, T)
        obs = C.filter_obs(obs)
        total += len(ws)
        byw = {w.name: w for w in ws}
        for ci, part in enumerate(engine.chunk(obs, nchunk[T])):
            names = []
            for d in part:
                for k in ('impl', 'ref', 'twin'):
                    if d.get(k) and d[k] not in names:
                        names.append(d[k])
            specs.append(engine.UnitSpec('c04_%s_%d' % (T, ci), incs, [byw[n] for n in names], {'T': T, 'obs': part, 'prop': PROP}))
    results = engine.run_units(specs, worker, work)
    engine.collect(rep, results)
    rep.bounds = {'numeric_types': types, 'wrappers': total, 'paths_per_wrapper_max': H.MAX_PATHS if hasattr(H, 'MAX_PATHS') else 4096,
                  'inputs': 'all bit patterns of every operand component (NaN and infinities included)',
                  'solver_timeout_ms': int(results and 10000)}
    rep.assumptions = [
        'IR of clang 14 at -O1 -ffp-contract=off; the project flags -O3 -ffast-math are outside the claim',
        'operands are constructed by memcpy of raw numbers into the quantity object (layout checked by static_assert)',
        'libm functions are uninterpreted except sqrt/fabs',
        'a*b and b*a (a+b and b+a) are the same IEEE value; NaN payloads are not distinguished']
    rep.explanation = 'every operator instance is executed symbolically from clang IR and compared bit-precisely (z3 QF_FP) with its IEEE component-wise specification'
    return rep.finish()


if __name__ == '__main__':
    sys.exit(main())
