"""helpers shared by the per-property checks"""
import os, re
from .. import harness as H, inventory as INV, core, engine
from ..terms import mk, fc
from .. import terms as tm

TYPES = ['f64', 'f32', 'f80']
CT = H.CTYPE
ALL_INCLUDES = None


def all_includes(work):
    inc = H.include_dir(work)
    return INV.all_headers(inc)


def numeric_types(quick_all=True):
    if core.tier() == 'thorough' or quick_all:
        return list(TYPES)
    return ['f64']


class Shapes:
    """component counts of every class usable as an operand"""

    def __init__(self, inv):
        self.inv = inv
        self.shape = {}
        for n, c in inv.classes.items():
            if c['shape']:
                self.shape[n] = c['shape']

    def of(self, tyname):
        """'Length<NumericType>' -> ('Length', 1);  'NumericType' -> (None, 1); unknown -> None"""
        t = tyname.strip()
        if t in ('NumericType', 'const NumericType', 'OtherNumericType', 'double', 'float', 'long double'):
            return (None, 1)
        q = INV.qname(t)
        if q and q in self.shape:
            return (q, self.shape[q])
        return None


def cxx(q, T):
    """C++ spelling of quantity class q instantiated at numeric type T ('f64')"""
    if q is None:
        return CT[T]
    return 'PhQ::%s<%s>' % (q, CT[T])


def load_arg(var, q, T, off, n):
    if q is None:
        return 'const %s %s = in[%d];' % (CT[T], var, off)
    return 'auto %s = phqv::get<%s>(in+%d); static_assert(sizeof(%s)==%d*sizeof(%s), "layout");' % (
        var, cxx(q, T), off, var, n, CT[T])


def store_res(expr, q, T, n, off=0):
    if q is None:
        return 'out[%d] = %s;' % (off, expr)
    return '{ const %s r_ = %s; static_assert(sizeof(r_)==%d*sizeof(%s), "layout"); phqv::put(out+%d, r_); }' % (
        cxx(q, T), expr, n, CT[T], off)


def sanitize(s):
    return re.sub(r'\W+', '_', s)


OPNAME = {'+': 'add', '-': 'sub', '*': 'mul', '/': 'div', '+=': 'iadd', '-=': 'isub', '*=': 'imul', '/=': 'idiv',
          '==': 'eq', '!=': 'ne', '<': 'lt', '>': 'gt', '<=': 'le', '>=': 'ge'}
FOP = {'+': 'fadd', '-': 'fsub', '*': 'fmul', '/': 'fdiv'}


def args_terms(T, n, start=0):
    return [tm.arg(T, 'x%d' % i) for i in range(start, start + n)]


def setup(prop):
    """common start of every check: scratch dir, inventory"""
    work = H.scratch_dir()
    H.include_dir(work)
    inv = INV.build(work)
    return work, inv


def filter_obs(obs):
    """debug aid: PHQV_FILTER=<regex> keeps only matching obligation ids"""
    f = os.environ.get('PHQV_FILTER')
    if not f:
        return obs
    r = re.compile(f)
    return [o for o in obs if r.search(o['id'])]
