"""C19 - quantities work during static initialisation.

Probe translation units define namespace-scope objects after the includes, one per facility and unit type (run-time
conversion, construction in a standard / non-standard unit, Value(unit), static conversion, comparison, abbreviation,
parsing, consistent unit, related unit system, printing, vector quantities), whose initial values are ARBITRARY numbers
(extern phqv_in(k) = symbolic x_k).  The dynamic initialisers of the library's tables and of the probes are executed
symbolically from the clang IR of the probe TU, in each of the two schedules the supported compilers produce:

  clang  the order of @llvm.global_ctors of the probe TU's own IR (tables first, the TU's ordered objects last);
  gcc    the order in which g++ -O0 -S of the same probe TU emits the initialisers in
         __static_initialization_and_destruction_0 (explicit specialisations in definition order, then the TU's objects,
         then the implicitly instantiated variable templates) - the order is a front-end decision, the same at -O2.

Until its own initialiser has run, a table is "pending": a lookup in it, or any load from a pending namespace-scope
object, is an initialisation-order event.  Obligation per probe and schedule: no such event, the initialiser returns
normally, and the object read back after the whole schedule is bit-identical (z3, symbolic x_k) to the same expression
evaluated inside main (all tables initialised).  A standard-level SMT query over integer positions (every order the C++17
rules [basic.start.dynamic] allow) additionally classifies each table read by a probe as guaranteed / not guaranteed.

Replay: a predicted failure is confirmed by building the probe group with the real compiler at -O0 and -O2 and running
it (main() compares the namespace-scope objects with in-main evaluations; a crash before main counts as failure).  Only
a reproduced failure is a violation.  The complete probe TU minus the predicted failures is also run natively with both
compilers at both levels as a conformance check of the two schedule models.
"""
import os
import re
import subprocess
import sys
import time
import z3
from .. import harness as H, inventory as INV, core, engine, terms as tm, modes
from ..irsym import summaries as SM, strings as SS
from ..irsym.exec import Executor, State, Unsupported
from . import common as C
from .common import CT, cxx, sanitize

PROP = 'C19'
VCLS = INV.VALUE_CLASS
NATIVE_VALUES = ['1.25', '-2.5', '3.0', '0.375', '100.0', '-7.0', '0.015625', '12.0']
OTHER_SYSTEM = 'PhQ::UnitSystem::FootPoundSecondRankine'
COMPILERS = {'gcc': 'g++', 'clang': 'clang++-14'}


# ------------------------------------------------------------------------------------ probes
class Probe:
    def __init__(self, pid, kind, gtype, expr, obs, n_out=0, n_iout=0, n_in=0, string=False):
        self.pid, self.kind, self.gtype, self.expr, self.obs = pid, kind, gtype, expr, obs
        self.n_out, self.n_iout, self.n_in, self.string = n_out, n_iout, n_in, string


def probes_for(inv, E, T, quantities):
    """E = 'Unit::Length'; quantities = [(name, shape)] having that unit"""
    ct = CT[T]
    EE = 'PhQ::' + E
    en = inv.enums[E]['enumerators']
    first, last = EE + '::' + en[0], EE + '::' + en[-1]
    STD = 'PhQ::Standard<%s>' % EE
    NS = '(%s == %s ? %s : %s)' % (first, STD, last, first)
    ps = []
    num = lambda: ('out[%(o)d] = v;', 1, 0)
    ps.append(Probe('convert', 'convert', ct, 'PhQ::Convert(phqv_in(%%(k)d), %s, %s)' % (NS, STD), 'out[%(o)d] = v;', 1, 0, 1))
    ps.append(Probe('convert-identity', 'convert-identity', ct, 'PhQ::Convert(phqv_in(%%(k)d), %s, %s)' % (STD, STD), 'out[%(o)d] = v;', 1, 0, 1))
    ps.append(Probe('abbreviation', 'abbreviation', 'std::string_view', 'PhQ::Abbreviation(%s)' % NS, 'iout[%(i)d] = (long)v.size(); iout[%(i)d + 1] = phqv::svhash(v);', 0, 2))
    ps.append(Probe('parse', 'parse', 'std::optional<%s>' % EE, 'PhQ::ParseEnumeration<%s>(PhQ::Abbreviation(%s))' % (EE, NS),
                    'iout[%(i)d] = v.has_value(); iout[%(i)d + 1] = v.has_value() ? (long)*v : -1;', 0, 2))
    ps.append(Probe('consistent-unit', 'consistent-unit', EE, 'PhQ::ConsistentUnit<%s>(%s)' % (EE, OTHER_SYSTEM), 'iout[%(i)d] = (long)v;', 0, 1))
    ps.append(Probe('related-system', 'related-system', 'std::optional<PhQ::UnitSystem>', 'PhQ::RelatedUnitSystem(PhQ::ConsistentUnit<%s>(%s))' % (EE, OTHER_SYSTEM),
                    'iout[%(i)d] = v.has_value(); iout[%(i)d + 1] = v.has_value() ? (long)*v : -1;', 0, 2))
    sc = [q for q, n in quantities if n == 1 and q not in ('Direction', 'PlanarDirection')]
    if sc:
        q = sc[0]
        QT = cxx(q, T)
        put = 'phqv::put(out + %(o)d, v);'
        ps.append(Probe('%s ctor-standard' % q, 'ctor-standard', QT, '%s{phqv_in(%%(k)d), %s}' % (QT, STD), put, 1, 0, 1))
        ps.append(Probe('%s ctor-nonstandard' % q, 'ctor-nonstandard', QT, '%s{phqv_in(%%(k)d), %s}' % (QT, NS), put, 1, 0, 1))
        ps.append(Probe('%s value-nonstandard' % q, 'value-nonstandard', ct, '%s::template Create<%s>(phqv_in(%%(k)d)).Value(%s)' % (QT, STD, NS), 'out[%(o)d] = v;', 1, 0, 1))
        ps.append(Probe('%s static-conversion' % q, 'static-conversion', ct, '%s::template Create<%s>(phqv_in(%%(k)d)).template StaticValue<%s>()' % (QT, NS, NS), 'out[%(o)d] = v;', 1, 0, 1))
        ps.append(Probe('%s compare-standard' % q, 'compare-standard', 'bool', '(%s{phqv_in(%%(k)d), %s} < %s{phqv_in(%%(k)d + 1), %s})' % (QT, STD, QT, STD), 'iout[%(i)d] = v;', 0, 1, 2))
        ps.append(Probe('%s compare-nonstandard' % q, 'compare-nonstandard', 'bool', '(%s{phqv_in(%%(k)d), %s} < %s{phqv_in(%%(k)d + 1), %s})' % (QT, NS, QT, STD), 'iout[%(i)d] = v;', 0, 1, 2))
        ps.append(Probe('%s print-standard' % q, 'print-standard', 'std::string', '%s{phqv_in(%%(k)d), %s}.Print()' % (QT, STD), 'phqv_emit(v);', 0, 0, 1, True))
        ps.append(Probe('%s print-nonstandard' % q, 'print-nonstandard', 'std::string', '%s{phqv_in(%%(k)d), %s}.Print(%s)' % (QT, STD, NS), 'phqv_emit(v);', 0, 0, 1, True))
    vec = [(q, n) for q, n in quantities if n > 1 and VCLS.get(n)]
    if vec:
        q, n = vec[0]
        QT = cxx(q, T)
        val = 'PhQ::%s<%s>{%s}' % (VCLS[n], ct, ', '.join('phqv_in(%%(k)d + %d)' % j for j in range(n)))
        put = 'phqv::put(out + %(o)d, v);'
        ps.append(Probe('%s vector-standard' % q, 'vector-standard', QT, '%s{%s, %s}' % (QT, val, STD), put, n, 0, n))
        ps.append(Probe('%s vector-nonstandard' % q, 'vector-nonstandard', QT, '%s{%s, %s}' % (QT, val, NS), put, n, 0, n))
    for p in ps:
        p.pid = '%s<%s>: %s' % (E, ct, p.pid)
        p.E = E
        p.headers = ['PhQ/Unit/%s.hpp' % E.split('::')[1], 'PhQ/UnitSystem.hpp'] + ['PhQ/%s.hpp' % q for q in ([sc[0]] if sc else []) + ([vec[0][0]] if vec else [])]
    return ps


EXTRA_HEAD = r'''
#include <string>
#include <string_view>
#include <optional>
#include <vector>
#include <cstdio>
#include <csignal>
#include <cstdlib>
extern "C" %(ct)s phqv_in(long k);
extern "C" void phqv_emit(const std::string& s);
namespace phqv { inline long svhash(std::string_view s) { long h = 0; for (char c : s) h = h * 131 + (unsigned char)c; return h; } }
#ifdef PHQV_NATIVE_MAIN
// native replay build: fixed finite values for the arbitrary inputs, a log for the emitted strings, and a main that
// compares the namespace-scope objects with in-main evaluations.  Dying before main is reported through the exit status.
static const %(ct)s phqv_values[] = {%(vals)s};
extern "C" %(ct)s phqv_in(long k) { return phqv_values[k %% (long)(sizeof phqv_values / sizeof phqv_values[0])]; }
static std::vector<std::string>* phqv_log = nullptr;
extern "C" void phqv_emit(const std::string& s) { if (phqv_log) phqv_log->push_back(s); }
static bool phqv_same(%(ct)s x, %(ct)s y) { return (x == y && std::signbit(x) == std::signbit(y)) || (x != x && y != y); }
static void phqv_died(int) { std::puts("DIED before or during main (signal)"); std::fflush(stdout); std::_Exit(3); }
namespace { struct phqv_first { phqv_first() { std::signal(SIGSEGV, phqv_died); std::signal(SIGABRT, phqv_died); } } phqv_first_object; }
#endif
'''


def probe_source(T, probes):
    """namespace-scope objects + read-back / in-main wrappers + native main; returns (src, layout)"""
    ct = CT[T]
    src = [EXTRA_HEAD % {'ct': ct, 'vals': ', '.join(v + ('f' if T == 'f32' else 'L' if T == 'f80' else '') for v in NATIVE_VALUES)}]
    o = i = k = 0
    for n, p in enumerate(probes):
        p.n, p.o, p.i, p.k = n, o, i, k
        p.gname = 'phqv_g%d' % n
        p.cexpr = p.expr % {'k': k}
        o += p.n_out
        i += p.n_iout
        k += p.n_in
    for p in probes:
        src.append('#if !defined(PHQV_ONLY_KIND) || PHQV_ONLY_KIND == %d\n#if !(defined(PHQV_SKIP_MASK) && ((PHQV_SKIP_MASK >> %d) & 1))\n#define PHQV_HAVE_%d 1\n%s %s = %s;\n#endif\n#endif\n' % (
            p.kindno, p.kindno, p.n, p.gtype, p.gname, p.cexpr))
    rd = ['(void)in; (void)iin;']
    mn = ['(void)in; (void)iin;']
    for p in probes:
        sl = {'o': p.o, 'i': p.i}
        rd.append('#ifdef PHQV_HAVE_%d\n{ const auto& v = %s; %s }\n#endif' % (p.n, p.gname, p.obs % sl))
        mn.append('#ifdef PHQV_HAVE_%d\n{ const %s v = %s; %s }\n#endif' % (p.n, p.gtype, p.cexpr, p.obs % sl))
    return ''.join(src), '\n'.join(rd), '\n'.join(mn), o, i, k


def native_main(T, probes, n_out, n_iout):
    ct = CT[T]
    lines = ['#ifdef PHQV_NATIVE_MAIN', 'int main() {',
             '  static %s a[%d], b[%d]; static long ia[%d], ib[%d];' % (ct, max(1, n_out), max(1, n_out), max(1, n_iout), max(1, n_iout)),
             '  std::vector<std::string> la, lb; int bad = 0;',
             '  phqv_log = &la; w_read(nullptr, a, ia, nullptr); phqv_log = &lb; w_main(nullptr, b, ib, nullptr); phqv_log = nullptr;',
             '  std::size_t s = 0; (void)s;']
    for p in probes:
        lines.append('#ifdef PHQV_HAVE_%d' % p.n)
        conds = ['!phqv_same(a[%d], b[%d])' % (p.o + j, p.o + j) for j in range(p.n_out)]
        conds += ['ia[%d] != ib[%d]' % (p.i + j, p.i + j) for j in range(p.n_iout)]
        if p.string:
            conds.append('(s >= la.size() || s >= lb.size() || la[s] != lb[s])')
        lines.append('  if (%s) { ++bad; std::printf("FAIL probe %d\\n"); }' % (' || '.join(conds) or 'false', p.n))
        if p.string:
            lines.append('  ++s;')
        lines.append('#endif')
    lines += ['  std::printf(bad ? "%d probe(s) differ\\n" : "all probes agree (%d)\\n", bad);', '  return bad ? 1 : 0;', '}', '#endif', '']
    return '\n'.join(lines)


# ------------------------------------------------------------------------------------ schedules
def clang_schedule(mod):
    """[(kind, name, fn)] in llvm.global_ctors order; the TU's own _GLOBAL__sub_I function is expanded into its calls"""
    items = []
    for prio, fn, data in mod.ctors:
        if fn is None:
            continue
        if data is not None:
            items.append(('table', data, fn))
            continue
        f = mod.functions.get(fn)
        if f is None or f.declared:
            continue
        for callee in calls_in_order(f):
            items.append(classify_init(mod, callee))
    return items


def calls_in_order(f):
    out = []
    for b in f.order:
        for ins in f.blocks[b]:
            if ins.op in ('call', 'invoke'):
                m = re.search(r'@([\w.$]+)\(', ins.text)
                if m:
                    out.append(m.group(1))
    return out


def classify_init(mod, fn):
    f = mod.functions.get(fn)
    if f is not None and not f.declared:
        for b in f.order:
            for ins in f.blocks[b]:
                m = re.search(r'@((?:_Z\d+)?(phqv_g\d+)\w*)', ins.text)
                if m:
                    return ('user', m.group(1), fn)
    return ('other', fn, fn)


def gcc_schedule(src_path, inc, work, tag):
    """order of first reference to each guard variable / probe object in g++ -O0's static-initialisation function"""
    s_path = os.path.join(work, tag + '.gcc.s')
    rc, out, err = H.run_cmd(['g++', '-std=c++17', '-O0', '-S', '-w', '-I', inc, src_path, '-o', s_path])
    if rc != 0:
        raise H.BuildError('g++ -S failed: ' + err[:1500])
    s = open(s_path).read()
    os.unlink(s_path)
    seq = []
    for m in re.finditer(r'^(_Z41__static_initialization_and_destruction_0ii[\w.]*):\n(.*?)\n\t\.size\t\1,', s, re.S | re.M):
        for mm in re.finditer(r'\b(_ZGV\w+|(?:_Z\d+)?phqv_g\d+\w*)', m.group(2)):
            x = mm.group(1)
            if x.startswith('_ZGV'):
                x = '_Z' + x[4:]
            if x not in seq:
                seq.append(x)
    return seq


class Outcome:
    def __init__(self):
        self.events = []      # initialisation-order events [(kind, detail)]
        self.status = 'ret'
        self.error = None


def run_schedule(ex, mod, items, user_names, table_names):
    """execute the initialisers in the given order; returns (final state, {user global: Outcome}, notes)"""
    st = State()
    pending = set(user_names) | set(table_names)
    st.extra['pending_init'] = frozenset(pending)
    outcomes = {}
    notes = []
    for kind, name, fn in items:
        pending.discard(name)
        st.extra['pending_init'] = frozenset(pending)
        snap = st.clone()
        nub = len(st.ub)
        try:
            sub = ex.run(fn, [], st)
        except Unsupported as e:
            st = snap
            if kind == 'user':
                oc = outcomes.setdefault(name, Outcome())
                oc.error = 'unsupported: %s' % e
            else:
                notes.append('initialiser of %s skipped: %s' % (name, str(e)[:100]))
            continue
        if kind == 'user':
            oc = outcomes.setdefault(name, Outcome())
            bad = [s for s in sub if s.status != 'ret' or len(s.ub) > nub]
            if bad:
                b = bad[0]
                oc.events = list(b.ub[nub:])
                oc.status = b.status
                st = snap            # judged on its own: the following probes start from the state before this one
                continue
            if len(sub) != 1:
                oc.error = 'unsupported: the initialiser forks into %d paths' % len(sub)
                st = snap
                continue
            st = sub[0]
        else:
            if len(sub) != 1 or sub[0].status != 'ret':
                notes.append('initialiser of %s did not run to a single normal return (%s)' % (name, [s.status for s in sub][:3]))
                st = snap
                continue
            st = sub[0]
        st.status = None
        st.ret = None
    st.extra['pending_init'] = frozenset()
    return st, outcomes, notes


def standard_guarantee(defined_before, unordered):
    """SMT over integer positions: is there an order allowed by [basic.start.dynamic] in which the reader R (ordered
    initialisation, defined after the table V in the only TU) runs before V?  V partially-ordered (explicit
    specialisation of an inline variable template) and defined before R => sequenced before R; V unordered (implicitly
    instantiated specialisation) => no constraint."""
    s = z3.Solver()
    pv, pr = z3.Int('pos_V'), z3.Int('pos_R')
    s.add(pv != pr)
    if defined_before and not unordered:
        s.add(pv < pr)
    s.add(pr < pv)
    return s.check() == z3.unsat


# ------------------------------------------------------------------------------------ native replay
def native_run(work, src_path, inc, tag, comp, opt, defs):
    exe = os.path.join(work, '%s.%s%s.%d.exe' % (tag, comp, opt, abs(hash(tuple(defs))) % 100000))
    cmd = [COMPILERS[comp], '-std=c++17', opt, '-w', '-Wno-c++11-narrowing', '-DPHQV_NATIVE_MAIN', '-I', inc] + ['-D' + d for d in defs] + [src_path, '-o', exe]
    if comp == 'gcc':
        cmd.remove('-Wno-c++11-narrowing')
    rc, out, err = H.run_cmd(cmd)
    if rc != 0:
        return None, 'build failed: ' + err[-800:], cmd
    try:
        p = subprocess.run([exe], stdout=subprocess.PIPE, stderr=subprocess.STDOUT, timeout=60)
        rc, txt = p.returncode, p.stdout.decode('utf-8', 'replace')
    except subprocess.TimeoutExpired:
        rc, txt = 124, 'timeout'
    finally:
        try:
            os.unlink(exe)
        except OSError:
            pass
    return rc, txt.strip()[-600:], cmd


# ------------------------------------------------------------------------------------ worker
def worker(ctx):
    pl = ctx.spec.payload
    T = pl['T']
    probes = pl['probes']
    u = ctx.unit
    mod = u.mod
    inc = H.include_dir(ctx.unit.work)
    summ = SM.containers()
    summ.update(SM.heap())
    SS.install(summ, mod, summarise_print=True)

    def phqv_in(ex, st, fr, ins, name, argv):
        k = argv[0]
        if not tm.is_ic(k):
            raise Unsupported('phqv_in with a symbolic index')
        return tm.arg(T, 'x%d' % k.args[0])
    summ['phqv_in'] = phqv_in
    tables = {d for _, fn, d in mod.ctors if d is not None and fn is not None}
    real = {}
    for g in list(mod.globals.raw) if hasattr(mod.globals, 'raw') else list(mod.globals):
        m = re.match(r'^(?:_Z\d+)?(phqv_g\d+)(?:B5cxx11)?$', g)
        if m:
            real[m.group(1)] = g
    for p in probes:
        p.gname = real.get(p.gname, p.gname)       # the symbol of the object (std::string objects carry an ABI tag)
    users = {p.gname for p in probes}
    byg = {p.gname: p for p in probes}
    w_read, w_main = ctx.byname['w_read'], ctx.byname['w_main']
    # reference: the same expressions inside main (every table initialised)
    ref = H.execute_wrapper(mod, w_main, summ, init_tables='all')
    ctx.out['functions'] = sorted(set(ctx.out.get('functions', [])) | set(ref.functions or []))
    scheds = {}
    try:
        scheds['clang'] = clang_schedule(mod)
    except Exception as e:
        scheds['clang'] = e
    try:
        seq = gcc_schedule(u.src, inc, u.work, u.name)
        fn_of = {d: fn for _, fn, d in mod.ctors if d is not None and fn is not None}
        user_fn = {it[1]: it[2] for it in (scheds['clang'] if isinstance(scheds['clang'], list) else []) if it[0] == 'user'}
        items = [it for it in (scheds['clang'] if isinstance(scheds['clang'], list) else []) if it[0] == 'other']
        missing = []
        for x in seq:
            if x in fn_of:
                items.append(('table', x, fn_of[x]))
            elif x in user_fn:
                items.append(('user', x, user_fn[x]))
            elif 'phqv_g' in x:
                missing.append(x)
        scheds['gcc'] = items
        ctx.out['notes'].append('gcc order (%s): %d tables, %d probe objects; tables after the first probe object: %s' % (
            u.name, sum(1 for i in items if i[0] == 'table'), sum(1 for i in items if i[0] == 'user'),
            sorted({re.sub(r'^_ZN3PhQ8Internal\d+(\w+?)I.*$', r'\1', i[1]) for n, i in enumerate(items) if i[0] == 'table' and any(j[0] == 'user' for j in items[:n])})))
    except Exception as e:
        scheds['gcc'] = e
    predicted = {}      # (sched, gname) -> reason
    pend = {}           # obligation id -> (ob, reason, schedule, probe)
    for sname in ('clang', 'gcc'):
        items = scheds[sname]
        if isinstance(items, Exception):
            for p in probes:
                o = ctx.ob('%s schedule: %s' % (sname, p.pid), 'static-init', 'BIT', statement(sname, p))
                o.reason = 'schedule not derived: %s' % str(items)[:200]
            continue
        ex = Executor(mod, summ)
        t0 = time.time()
        st, outcomes, notes = run_schedule(ex, mod, items, users, tables)
        ctx.out['paths'] = ctx.out.get('paths', 0) + len(items)
        for n_ in notes[:5]:
            ctx.out['notes'].append('%s/%s: %s' % (u.name, sname, n_))
        got = H.execute_wrapper(mod, w_read, summ, state=st)
        pos = {it[1]: n for n, it in enumerate(items)}
        for p in probes:
            o = ctx.ob('%s schedule: %s' % (sname, p.pid), 'static-init', 'BIT', statement(sname, p))
            o.key = '%s:%s:%s' % (sname, p.kind, p.E)
            oc = outcomes.get(p.gname)
            if oc is None:
                o.reason = 'the initialiser of %s is not in the %s schedule (constant-initialised or not found)' % (p.gname, sname)
                continue
            if oc.error:
                o.reason = oc.error
                continue
            if oc.events or oc.status != 'ret':
                ev = oc.events[0] if oc.events else ('initialiser ends in %s' % oc.status, '')
                tname = ev[1]
                unordered = tname in tables and is_unordered(tname, inc)
                guaranteed = standard_guarantee(True, unordered)
                predicted[(sname, p.gname)] = '%s: %s (%s; the C++17 ordering rules %s it to be initialised first)' % (
                    ev[0], short(tname), 'implicitly instantiated variable template, unordered initialisation' if unordered else 'partially-ordered or ordered initialisation',
                    'require' if guaranteed else 'do not require')
                pend[o.oid] = (o, predicted[(sname, p.gname)], sname, p)
                continue
            if got.error or ref.error:
                o.reason = got.error or ref.error
                continue
            a = [got.out[p.o + j] for j in range(p.n_out)] + [got.iout[p.i + j] for j in range(p.n_iout)]
            b = [ref.out[p.o + j] for j in range(p.n_out)] + [ref.iout[p.i + j] for j in range(p.n_iout)]
            if p.string:
                ea = emitted(got, p, probes)
                eb = emitted(ref, p, probes)
                if ea is None or eb is None:
                    o.reason = 'unsupported: emitted string not found in the event trace'
                    continue
                if ea != eb:
                    predicted[(sname, p.gname)] = 'printed text differs: %s before main, %s inside main' % (SS.render(ea)[:80], SS.render(eb)[:80])
                    pend[o.oid] = (o, predicted[(sname, p.gname)], sname, p)
                    continue
                o.verdict = 'discharged'
                o.syntactic = True
                continue
            if any(t is None for t in a + b):
                o.reason = 'unsupported: an observable of the probe was not produced (%s)' % ('read-back' if any(t is None for t in a) else 'in-main')
                continue
            ctx.bit_equal(o, a, b, w_read, key=o.key, replay=lambda xs: (False, 'deferred'))
            if o.verdict != 'discharged' and o.model is not None:
                # differs for some inputs: confirm natively below
                predicted[(sname, p.gname)] = 'the object read back after the schedule differs from the in-main value (%s vs %s)' % (
                    [tm.show(t, 3) for t in a][:3], [tm.show(t, 3) for t in b][:3])
                pend[o.oid] = (o, predicted[(sname, p.gname)], sname, p)
        ctx.out['times'][sname + '_schedule'] = round(time.time() - t0, 2)
    # native confirmation of the predicted failures, per (compiler, kind)
    src_text = open(u.src).read()
    groups = {}
    for (sname, g), why in predicted.items():
        groups.setdefault((sname, byg[g].kindno), []).append(g)
    confirmed = {}
    for (sname, kno), gs in sorted(groups.items()):
        res = {}
        for opt in ('-O0', '-O2'):
            rc, txt, cmd = native_run(u.work, u.src, inc, u.name, sname, opt, ['PHQV_ONLY_KIND=%d' % kno])
            res[opt] = (rc, txt, cmd)
        confirmed[(sname, kno)] = res
    for o, why, sname, p in pend.values():
        res = confirmed.get((sname, p.kindno), {})
        fails = {opt: r for opt, r in res.items() if r[0] not in (0,)}
        build_fail = [opt for opt, r in res.items() if r[0] is None]
        real = {opt: r for opt, r in fails.items() if r[0] is not None and (r[0] != 1 or ('FAIL probe %d\n' % p.n) in r[1] + '\n')}
        if real:
            opt, r = sorted(real.items())[0]
            o.verdict = 'violated'
            o.reason = '%s; reproduced with %s %s: exit status %s, output %r' % (why, COMPILERS[sname], '/'.join(sorted(real)), r[0], r[1][-160:])
            o.replay = core.write_replay(PROP, o.oid, {'kind': 'program', 'property': PROP, 'obligation': o.oid, 'statement': o.desc, 'observed': o.reason,
                                                      'source': src_text, 'includes_dir': 'repo', 'builds': [{'compiler': COMPILERS[sname], 'flags': ['-std=c++17', op, '-w', '-DPHQV_NATIVE_MAIN', '-DPHQV_ONLY_KIND=%d' % p.kindno]} for op in sorted(real)],
                                                      'wrappers': [], 'impl': None, 'inputs': []})
        else:
            o.verdict = 'inconclusive'
            o.reason = 'the schedule model predicts an initialisation-order failure (%s) but the native %s builds pass%s' % (why, COMPILERS[sname], ' (build failed: %s)' % build_fail if build_fail else '')
    # conformance run of everything not predicted to fail, both compilers, both levels
    for sname in ('clang', 'gcc'):
        mask = 0
        for (sn, g), why in predicted.items():
            if sn == sname:
                mask |= 1 << byg[g].kindno
        for opt in ('-O0', '-O2'):
            o = ctx.ob('%s %s: native run of the probe TU %s' % (COMPILERS[sname], opt, u.name), 'native-conformance', 'GROUND',
                       'built with %s %s, every namespace-scope probe object not predicted to fail equals its in-main evaluation (fixed finite inputs); validates the schedule model' % (COMPILERS[sname], opt))
            o.syntactic = True
            o.key = 'native:%s:%s' % (sname, opt)
            rc, txt, cmd = native_run(u.work, u.src, inc, u.name, sname, opt, ['PHQV_SKIP_MASK=%d' % mask])
            if rc is None:
                o.reason = txt
            elif rc == 0:
                o.verdict = 'discharged'
                ctx.out['validated'] = ctx.out.get('validated', 0) + len(probes)
            else:
                o.verdict = 'violated'
                o.reason = 'exit status %s: %s' % (rc, txt[-300:])
                o.replay = core.write_replay(PROP, o.oid, {'kind': 'program', 'property': PROP, 'obligation': o.oid, 'statement': o.desc, 'observed': o.reason, 'source': src_text,
                                                          'builds': [{'compiler': COMPILERS[sname], 'flags': ['-std=c++17', opt, '-w', '-DPHQV_NATIVE_MAIN', '-DPHQV_SKIP_MASK=%d' % mask]}],
                                                          'wrappers': [], 'impl': None, 'inputs': []})


def emitted(res, p, probes):
    """the pieces of the string emitted for probe p (emit events appear in probe order)"""
    if len(res.paths) != 1:
        return None
    ems = [e for e in res.paths[0].events if e[0] == 'emit']
    idx = sum(1 for q in probes if q.string and q.n < p.n)
    if idx >= len(ems):
        return None
    return ems[idx][1]


_explicit = {}


def explicit_specialisations(inc):
    """{(variable template name, normalised argument list)} of the `template <>` variable definitions in the headers"""
    if inc in _explicit:
        return _explicit[inc]
    found = set()
    for root, _, files in os.walk(inc):
        for f in files:
            txt = open(os.path.join(root, f)).read()
            for m in re.finditer(r'template\s*<\s*>\s*inline\s+const(?:expr)?\b', txt):
                head = txt[m.end():m.end() + 600]
                cut = re.search(r'[{;=]', head)
                head = head[:cut.start()] if cut else head
                mm = re.search(r'(\w+)\s*<([^<>]*(?:<[^<>]*>[^<>]*)*)>\s*$', head)
                if mm:
                    found.add((mm.group(1), norm_args(mm.group(2))))
    _explicit[inc] = found
    return found


def norm_args(a):
    return re.sub(r'\s+', '', a).replace('PhQ::', '').replace('Internal::', '')


def is_unordered(name, inc):
    """a table whose definition is not an explicit specialisation is an implicitly instantiated specialisation of a
    (partially specialised) variable template: unordered initialisation [basic.start.dynamic]/1"""
    p = subprocess.run(['c++filt', name], stdout=subprocess.PIPE)
    d = p.stdout.decode().strip()
    m = re.match(r'^(?:PhQ::)?(?:Internal::)?(\w+)<(.*)>$', d)
    if not m:
        return True
    return (m.group(1), norm_args(m.group(2))) not in explicit_specialisations(inc)


def short(name):
    m = re.match(r'^_ZN3PhQ8Internal\d+(\w+?)I', name or '')
    return (m.group(1) if m else name) or '?'


def statement(sname, p):
    return '%s, initialisers in the order %s emits them: the namespace-scope object `%s x = %s;` is initialised without reading a table or object whose initialiser has not run, and equals the same expression evaluated inside main, for arbitrary phqv_in values' % (
        p.pid, 'clang (llvm.global_ctors)' if sname == 'clang' else 'g++ (static-initialisation function of the -O0 assembly)', p.gtype, p.cexpr[:120])


KINDS = ['convert', 'convert-identity', 'abbreviation', 'parse', 'consistent-unit', 'related-system', 'ctor-standard', 'ctor-nonstandard', 'value-nonstandard',
         'static-conversion', 'compare-standard', 'compare-nonstandard', 'print-standard', 'print-nonstandard', 'vector-standard', 'vector-nonstandard']


def main():
    rep = core.Report(PROP)
    work, inv = C.setup(PROP)
    incs = C.all_includes(work)
    thorough = core.tier() == 'thorough'
    units = [e for e in inv.enums if e.startswith('Unit::')]
    byunit = {}
    for q in inv.quantity_names():
        c = inv.classes[q]
        if c.get('unit'):
            byunit.setdefault(c['unit'], []).append((q, c['shape']))
    specs = []
    flt = os.environ.get('PHQV_FILTER')
    for T in C.TYPES:
        sel = units if (T == 'f64' or thorough) else [e for e in units if e in ('Unit::Length', 'Unit::Temperature', 'Unit::Pressure')]
        for ci, part in enumerate(engine.chunk(sel, 10 if len(sel) > 3 else 1)):
            probes = []
            for E in part:
                probes += probes_for(inv, E, T, byunit.get(E, []))
            if flt:
                probes = [p for p in probes if re.search(flt, p.pid)]
            if not probes:
                continue
            for p in probes:
                p.kindno = KINDS.index(p.kind)
            head, rd, mn, n_out, n_iout, n_in = probe_source(T, probes)
            w_read = H.Wrapper('w_read', T, 0, T, n_out, rd, n_iout=n_iout, flatten=False)
            w_main = H.Wrapper('w_main', T, 0, T, n_out, mn, n_iout=n_iout, flatten=False)
            hs = sorted({h for p in probes for h in p.headers})
            spec = engine.UnitSpec('c19_%s_%d' % (T, ci), incs if thorough else [h for h in incs if h in hs], [w_read, w_main], {'T': T, 'probes': probes, 'prop': PROP}, extra_src=head, extra_clang=['-fno-inline'], native=False)
            spec.tail_src = native_main(T, probes, n_out, n_iout)
            specs.append(spec)
    results = engine.run_units(specs, worker, work)
    engine.collect(rep, results)
    rep.bounds = {'numeric_types': 'double for every unit type; float and long double for Length, Temperature, Pressure (quick) or every unit type (thorough)',
                  'unit_types': len(units), 'facilities': KINDS, 'schedules': ['clang llvm.global_ctors order', 'g++ -O0 emission order'],
                  'translation_units': 'one TU including every library header, probe objects defined after the includes'}
    rep.assumptions = ['the g++ schedule is read from the -O0 assembly of the probe TU (order of first reference to each guard variable / probe object in the static-initialisation function); the order is a front-end decision and taken to be the same at -O2, which the native -O2 runs confirm',
                       'initialiser bodies are those of the clang IR for both schedules; libstdc++ containers and strings are summarised',
                       'single-TU programs: cross-TU order of the weak (comdat) table initialisers is outside the claim',
                       'a predicted failure is reported only when the natively built probe group fails with the real compiler']
    rep.explanation = 'symbolic execution of the dynamic initialisers of the probe TU in the clang and g++ orders, with pending-initialisation tracking of every table; read-back equals in-main evaluation (z3 FP); predicted failures replayed with the real compilers at -O0/-O2'
    return rep.finish()


if __name__ == '__main__':
    sys.exit(main())
