"""C20 - no exceptions and no undefined behaviour on any finite input.

Every wrapper family the other checks generate (operators, relations, tensor algebra, directions, angles, comparisons,
hashes, conversions, layout, definitional relations; table lookups; printing) is executed symbolically once more, this
time for the side conditions the executor tracks on every path:

  out-of-bounds / null / dead-object / uninitialised access, store to a constant, call through a non-function pointer,
  signed overflow, integer division by zero, dereference of a failed lookup (end() iterator), lookup in a table that is
  not initialised, and C++ exceptions: a throw unwinds through the landing pads of the real code (cleanups, catch
  clauses); a path that ends with an exception other than std::bad_alloc in flight is an event.

Obligation per wrapper: no event is feasible, i.e. for every event the conjunction of its path condition, its own
condition and "all inputs finite" is unsatisfiable (z3; no event at all = closed syntactically).

Parsers:
  ParseNumber<T>        std::stof/stod/stold are summarised by their documented contract (the parsed value - any value of
                        the type - or std::invalid_argument or std::out_of_range) on an arbitrary std::string: every
                        path returns normally, with the parsed value or with nothing.
  ParseEnumeration<E>   for each of the 39 enumerations: every byte string of length 0..N (N = 4 quick, 6 thorough;
                        all 256 byte values, NUL and non-ASCII included) - symbolic bytes - and the unbounded
                        "arbitrary string" model of C08: returns a declared enumerator or nothing, never throws.

Replay: a feasible event is replayed natively with the model's inputs in a build with AddressSanitizer,
UndefinedBehaviorSanitizer (no recovery) and libstdc++ assertions; only a reproduced event is a violation.
"""
import os
import re
import subprocess
import sys
import z3
from .. import harness as H, inventory as INV, core, engine, terms as tm, modes
from ..irsym import summaries as SM, strings as SS
from . import common as C, unitdata
from .common import CT, sanitize

PROP = 'C20'
EXTRA = '''
#include <string>
#include <string_view>
#include <optional>
#include <sstream>
struct phqv_sv { unsigned long n; const char* p; };
extern "C" phqv_sv phqv_any_string();
extern "C" void phqv_emit(const std::string&);
extern "C" const std::string& phqv_arbitrary_string();
'''
SAN_MAIN = r'''
#include <cstdio>
#include <new>
#include <exception>
static volatile unsigned phqv_sink = 0;
extern "C" void phqv_emit(const std::string& s) {
  // consume every byte, so that an uninitialised one is *used* (valgrind reports the conditional jump below)
  unsigned h = 0;
  for (const char c : s) h = h * 31u + static_cast<unsigned char>(c);
  if (h %% 3u == 1u) ++phqv_sink;
}
extern "C" phqv_sv phqv_any_string() { return phqv_sv{0, ""}; }
static std::string phqv_the_string;
extern "C" const std::string& phqv_arbitrary_string() { return phqv_the_string; }
int main() {
  static %(it)s in[%(nin)d] = {%(in)s};
  static %(ot)s out[%(nout)d];
  static long iout[%(niout)d];
  static long iin[%(niin)d] = {%(iin)s};
  const char* strings[] = {%(strings)s};
  const unsigned long lens[] = {%(lens)s};
  int bad = 0;
  for (unsigned k = 0; k < sizeof lens / sizeof lens[0]; ++k) {
    phqv_the_string.assign(strings[k], lens[k]);
    try {
      %(w)s(in, out, iout, iin);
    } catch (const std::bad_alloc&) {
    } catch (const std::exception& e) {
      std::printf("EXCEPTION %%s\n", e.what()); ++bad;
    } catch (...) {
      std::printf("EXCEPTION (unknown type)\n"); ++bad;
    }
  }
  std::printf(bad ? "%%d call(s) threw\n" : "no exception, no sanitizer report (%%d)\n", bad);
  return bad ? 1 : 0;
}
'''
NUMBER_STRINGS = ['', 'abc', '1e999999', '-1e999999', '1e-999999', '1.5', '  7', '0x1p-1', 'nan', '-inf', '+', '.', 'e5', '1e', '\\000' '12', '\\303\\251', '1,5', '٣']


def finite(ty, name):
    S = modes.FSORT[ty]
    x = z3.FP(name, S)
    return z3.Not(z3.Or(z3.fpIsNaN(x), z3.fpIsInf(x)))


# ------------------------------------------------------------------------------------ generic no-UB obligation
def no_ub(ctx, w, oid, desc, strings=None):
    o = ctx.ob(oid, 'no-ub-no-throw', 'BIT', desc)
    o.key = oid
    r = ctx.result(w.name)
    if r is None or r.error:
        o.reason = ctx.why_missing(w.name)
        return o
    events = []
    for pc, kind, detail in r.ub:
        if kind.startswith('path ends in throw:std::bad_alloc'):
            continue
        events.append((pc, kind, detail))
    ended = {id(pc) for pc, kind, detail in events if kind.startswith('path ends in')}
    # outputs are never written on a path that does not return: only the way the path ends is an event there
    events = [e for e in events if not (e[1].startswith('result depends on uninitialised') and id(e[0]) in ended)]
    events.sort(key=lambda e: 0 if e[1].startswith('path ends in') else 1)
    if not events:
        o.verdict = 'discharged'
        o.syntactic = True
        return o
    o.hash = None
    it = modes.Bit()
    fin = [finite(w.in_ty, 'x%d' % i) for i in range(w.n_in)]
    dom = (w.meta or {}).get('iin_domain')
    if dom:
        for i, vals in enumerate(dom):
            k = z3.BitVec('k%d' % i, 64)
            fin.append(z3.Or(*[k == z3.BitVecVal(v & 0xFFFFFFFFFFFFFFFF, 64) for v in vals]))
    undecided = None
    for pc, kind, detail in events[:40]:
        try:
            cons = [it.ev(c) for c in pc] + fin
        except modes.ModeError as e:
            undecided = 'event %s (%s): %s' % (kind, detail, e)
            continue
        v, model, secs, smt = core.solve(cons, ctx.timeout, want_smt=o.smt is None)
        o.secs = (o.secs or 0.0) + secs
        o.smt = o.smt or smt
        if v == 'unsat':
            continue
        if v != 'sat':
            undecided = 'event %s (%s): solver %s' % (kind, detail, v)
            continue
        xs = core.model_inputs(model, ['x%d' % i for i in range(w.n_in)], w.in_ty)
        ks = core.model_ints(model, ['k%d' % i for i in range(w.n_iin)])
        o.model = [core.hexf(x) for x in xs] + ks
        rc, txt, src, cmd = san_replay(ctx, w, xs, ks, strings, valgrind='uninitialised' in kind)
        if rc not in (0, None):
            o.verdict = 'violated'
            o.reason = '%s (%s) is reachable with inputs %s %s; sanitizer build: exit status %s: %s' % (kind, str(detail)[:120], o.model, '', rc, txt[-300:])
            o.replay = core.write_replay(PROP, oid, {'kind': 'program', 'property': PROP, 'obligation': oid, 'statement': desc, 'observed': o.reason, 'source': src,
                                                    'builds': [{'compiler': cmd[0], 'flags': cmd[1:], 'valgrind': 'uninitialised' in kind}], 'wrappers': [], 'impl': None, 'inputs': []})
            return o
        undecided = 'event %s (%s) is feasible in the model (inputs %s) but the sanitizer build reports nothing%s' % (kind, str(detail)[:100], o.model, '' if rc == 0 else ' (build failed: %s)' % txt[-200:])
    if undecided:
        o.reason = undecided
        return o
    o.verdict = 'discharged'
    o.hash = 'ub:' + oid
    return o


def cfloat(x, ty):
    s = core.hexf(x)            # "<int>p<exp>"
    m = re.match(r'^(-?)(\d+)p(-?\d+)$', s)
    if not m:
        return '0'
    return '%s0x%xp%s%s' % (m.group(1), int(m.group(2)), m.group(3), {'f32': 'f', 'f64': '', 'f80': 'L'}[ty])


def san_replay(ctx, w, xs, ks, strings=None, valgrind=False):
    u = ctx.unit
    inc = H.include_dir(u.work)
    strings = strings if strings is not None else ['']
    lens = []
    lits = []
    for s_ in strings:
        b = s_.encode('utf-8').decode('unicode_escape').encode('latin-1') if '\\' in s_ else s_.encode('utf-8')
        lens.append(len(b))
        lits.append('"' + ''.join('\\%03o' % c for c in b) + '"')
    main = SAN_MAIN % {'it': CT[w.in_ty], 'ot': CT[w.out_ty], 'nin': max(1, w.n_in), 'nout': max(1, w.n_out), 'niout': max(1, w.n_iout), 'niin': max(1, w.n_iin),
                       'in': ', '.join(cfloat(x, w.in_ty) for x in xs) or '0', 'iin': ', '.join(str(int(k) - (1 << 64) if int(k) >= (1 << 63) else int(k)) + 'L' for k in ks) or '0',
                       'w': w.name, 'strings': ', '.join(lits), 'lens': ', '.join('%dUL' % n for n in lens)}
    # only this wrapper, to keep the replay program small
    one = H.Unit(u.work, u.name + '_san_' + w.name, u.includes, [w], u.extra_src)
    one.tail_src = main
    one.write([w])
    src = open(one.src).read()
    exe = one.src[:-4] + '.exe'
    flags = ['-std=c++17', '-O1', '-g0', '-w', '-ffp-contract=off', '-fsanitize=address,undefined', '-fno-sanitize-recover=all', '-D_GLIBCXX_ASSERTIONS']
    if valgrind:
        # reads of uninitialised memory are invisible to ASan/UBSan: plain build, run under valgrind memcheck
        flags = ['-std=c++17', '-O0', '-g', '-w', '-ffp-contract=off']
    cmd = ['g++'] + flags
    rc, out, err = H.run_cmd(cmd + ['-I', inc, one.src, '-o', exe])
    try:
        if rc != 0:
            return None, err[-400:], src, cmd
        run = ['valgrind', '-q', '--error-exitcode=9', exe] if valgrind else [exe]
        p = subprocess.run(run, stdout=subprocess.PIPE, stderr=subprocess.STDOUT, timeout=300, env=dict(os.environ, ASAN_OPTIONS='detect_leaks=0'))
        txt = p.stdout.decode('utf-8', 'replace')
        m = re.search(r'(ERROR: AddressSanitizer[^\n]*|runtime error:[^\n]*|EXCEPTION[^\n]*|Assertion[^\n]*|==\d+== (?:Conditional jump|Use of uninitialised)[^\n]*)', txt)
        return p.returncode, (m.group(1) if m else txt.strip()[-300:]), src, cmd
    finally:
        for f in (exe, one.src):
            try:
                os.unlink(f)
            except OSError:
                pass


# ------------------------------------------------------------------------------------ families
def family_pure(inv, T):
    """wrappers of the other checks' generators (flattened, no containers)"""
    from . import C03, C04, C05, C09, C10, C11, C14, C16, C17, C18
    out = []
    seen = set()
    for name, mod in (('C04', C04), ('C03', C03), ('C05', C05), ('C09', C09), ('C10', C10), ('C11', C11), ('C14', C14), ('C17', C17), ('C18', C18)):
        try:
            res = mod.generate(inv, T)
        except Exception as e:
            out.append((name, None, 'generator failed: %s' % e))
            continue
        for w in res[0]:
            nm = 'c20_%s_%s' % (name, w.name)
            if nm in seen or not w.flatten:
                continue
            seen.add(nm)
            w2 = H.Wrapper(nm, w.in_ty, w.n_in, w.out_ty, w.n_out, w.body, w.n_iout, dict(w.meta or {}), w.n_iin, True)
            out.append((name, w2, '%s wrapper %s' % (name, w.name)))
    # constitutive models (C12/C13 wrappers) and precision conversions (C16 wrappers)
    from . import models as MD, C16
    extra = []
    for cls in MD.MODELS:
        try:
            extra += [('C12/C13', w) for w in MD.map_wrappers(cls, T, T)[0]]
        except Exception as e:
            out.append(('C12/C13', None, 'generator failed: %s' % e))
    for T2 in [t for t in C.TYPES if t != T][:1 if core.tier() != 'thorough' else 2]:
        try:
            extra += [('C16', w) for w in C16.generate(inv, T, T2)[0]]
        except Exception as e:
            out.append(('C16', None, 'generator failed: %s' % e))
    for name, w in extra:
        nm = 'c20_%s_%s' % (name.replace('/', '_'), w.name)
        if nm in seen or not w.flatten:
            continue
        seen.add(nm)
        out.append((name, H.Wrapper(nm, w.in_ty, w.n_in, w.out_ty, w.n_out, w.body, w.n_iout, dict(w.meta or {}), w.n_iin, True), '%s wrapper %s' % (name, w.name)))
    return out


def family_tables(inv, tb):
    ws = []
    for q, e in sorted(tb.items()):
        E = 'PhQ::' + q
        tag = sanitize(q)
        vals = sorted(e['enumerators'].values())
        ws.append((H.Wrapper('w_abbr_' + tag, 'f64', 0, 'f64', 0, 'const std::string_view s = PhQ::Abbreviation(static_cast<%s>(iin[0])); iout[0] = (long)s.size();' % E,
                             n_iout=1, n_iin=1, flatten=False, meta={'iin_domain': [vals]}), '%s: Abbreviation(e) for every declared enumerator e' % q))
        ws.append((H.Wrapper('w_stream_' + tag, 'f64', 0, 'f64', 0, 'std::ostringstream os; { using namespace PhQ; os << static_cast<%s>(iin[0]); } phqv_emit(os.str());' % E,
                             n_iin=1, flatten=False, meta={'iin_domain': [vals]}), '%s: operator<< for every declared enumerator' % q))
        if q.startswith('Unit::'):
            svals = sorted(tb['UnitSystem']['enumerators'].values())
            ws.append((H.Wrapper('w_cu_' + tag, 'f64', 0, 'f64', 0, 'iout[0] = (long)PhQ::ConsistentUnit<%s>(static_cast<PhQ::UnitSystem>(iin[0]));' % E,
                                 n_iout=1, n_iin=1, flatten=False, meta={'iin_domain': [svals]}), '%s: ConsistentUnit(system) for every unit system (map::at)' % q))
            ws.append((H.Wrapper('w_rs_' + tag, 'f64', 0, 'f64', 0, 'const std::optional<PhQ::UnitSystem> r = PhQ::RelatedUnitSystem(static_cast<%s>(iin[0])); iout[0] = r.has_value();' % E,
                                 n_iout=1, n_iin=1, flatten=False, meta={'iin_domain': [vals]}), '%s: RelatedUnitSystem(u) for every declared unit' % q))
            ws.append((H.Wrapper('w_rt_' + tag, 'f64', 1, 'f64', 1, 'out[0] = PhQ::Convert(in[0], static_cast<%s>(iin[0]), static_cast<%s>(iin[1]));' % (E, E),
                                 n_iin=2, flatten=False, meta={'iin_domain': [vals, vals], 'max_paths': 20000}), '%s: Convert(x, from, to) for every ordered pair of declared units (find()->second)' % q))
    return ws


def family_dimensions():
    """serialisations of a dimension set with arbitrary int8 exponents (2^7 zero / non-zero patterns)"""
    dims = ['Time', 'Length', 'Mass', 'ElectricCurrent', 'Temperature', 'SubstanceAmount', 'LuminousIntensity']
    ctor = ', '.join('PhQ::Dimension::%s(static_cast<int8_t>(iin[%d]))' % (d, i) for i, d in enumerate(dims))
    ws = []
    for f in ('Print', 'JSON', 'XML', 'YAML'):
        ws.append((H.Wrapper('w_dims_' + f, 'f64', 0, 'f64', 0, 'const PhQ::Dimensions d(%s); phqv_emit(d.%s());' % (ctor, f), n_iin=7, flatten=False, meta={'max_paths': 70000}),
                   'Dimensions::%s() for arbitrary exponents' % f))
    return ws


def PARSE_LEN():
    return int(os.environ.get('PHQV_PARSE_LEN') or (6 if core.tier() == 'thorough' else 4))


_derived_len = {}


def code_derived_lengths(work):
    """byte-string lengths taken from the code: ParseEnumeration / ParseNumber and the PhQ helpers they call are compiled on
    their own; every integer constant 5 <= c <= 64 among their operands (a buffer size, a length limit, a small-string
    threshold) and every `alloca [c x i8]` adds the lengths c-1, c, c+1.  The unchanged tree has none."""
    if 'v' in _derived_len:
        return _derived_len['v']
    src = os.path.join(work, 'c20_lengths.cpp')
    ll = os.path.join(work, 'c20_lengths.ll')
    open(src, 'w').write('#include "PhQ/Base.hpp"\n#include "PhQ/UnitSystem.hpp"\n'
                         'extern "C" long w(const char* p, long n) { auto r = PhQ::ParseEnumeration<PhQ::UnitSystem>(std::string_view(p, n)); '
                         'auto d = PhQ::ParseNumber<double>(std::string(p, n)); auto f = PhQ::ParseNumber<float>(std::string(p, n)); '
                         'auto l = PhQ::ParseNumber<long double>(std::string(p, n)); return r.has_value() + d.has_value() + f.has_value() + l.has_value(); }\n')
    consts = set()
    try:
        rc, out, err = H.run_cmd(['clang++-14'] + H.CLANG_FLAGS + ['-fno-inline', '-I', H.include_dir(work), src, '-o', ll])
        if rc == 0:
            cur = False
            for line in open(ll):
                if line.startswith('define '):
                    m = re.search(r'@([\w.$]+)\(', line)
                    cur = bool(m and m.group(1).startswith('_ZN3PhQ'))
                elif line.startswith('}'):
                    cur = False
                elif cur:
                    m = re.search(r'alloca \[(\d+) x i8\]', line)
                    if m:
                        consts.add(int(m.group(1)))
                    if re.match(r'\s*(call|invoke|br|ret|store|load|getelementptr|%\S+ = (getelementptr|load|call|invoke|phi|bitcast|alloca|insertvalue|extractvalue))\b', line):
                        continue
                    for c in re.findall(r'\bi(?:64|32) (\d+)\b', line) + re.findall(r', (\d+)\s*$', line):
                        consts.add(int(c))
    except Exception:
        pass
    consts = sorted(c for c in consts if 5 <= c <= 64)
    lens = sorted({n for c in consts for n in (c - 1, c, c + 1)})[:9]
    _derived_len['v'] = (lens, consts)
    return _derived_len['v']


def family_parse(inv, tb, N, extra=()):
    ws = []
    for q, e in sorted(tb.items()):
        E = 'PhQ::' + q
        tag = sanitize(q)
        vals = sorted(e['enumerators'].values())
        for L in list(range(N + 1)) + [x for x in extra if x > N]:
            body = ('char buf[%d]; %s const std::optional<%s> r = PhQ::ParseEnumeration<%s>(std::string_view(buf, %d)); iout[0] = r.has_value(); iout[1] = r.has_value() ? (long)*r : -1;' % (
                max(1, L), ' '.join('buf[%d] = (char)iin[%d];' % (i, i) for i in range(L)), E, E, L))
            ws.append((H.Wrapper('w_parse%d_%s' % (L, tag), 'f64', 0, 'f64', 0, body, n_iout=2, n_iin=max(1, L), flatten=False, meta={'max_paths': 20000, 'enumvals': vals, 'parse': True}),
                       '%s: ParseEnumeration on every byte string of length %d' % (q, L)))
        body = 'const phqv_sv s = phqv_any_string(); const std::optional<%s> r = PhQ::ParseEnumeration<%s>(std::string_view(s.p, s.n)); iout[0] = r.has_value(); iout[1] = r.has_value() ? (long)*r : -1;' % (E, E)
        ws.append((H.Wrapper('w_parseany_' + tag, 'f64', 0, 'f64', 0, body, n_iout=2, flatten=False, meta={'max_paths': 20000, 'enumvals': vals, 'parse': True, 'no_replay': True}),
                   '%s: ParseEnumeration on an arbitrary byte string (equals spelling i, or none)' % q))
    return ws


def family_number():
    ws = []
    for T in C.TYPES:
        ct = CT[T]
        body = 'const std::optional<%s> r = PhQ::ParseNumber<%s>(phqv_arbitrary_string()); iout[0] = r.has_value(); out[0] = r.has_value() ? *r : 0;' % (ct, ct)
        ws.append((H.Wrapper('w_parsenumber_' + T, T, 0, T, 1, body, n_iout=1, flatten=False, meta={'number': T}), 'ParseNumber<%s> on an arbitrary string' % ct))
    return ws


def family_number_bytes(N, extra=()):
    """ParseNumber<T> on every byte string of length 0..N (symbolic bytes; std::sto* by contract)"""
    ws = []
    for T in C.TYPES:
        ct = CT[T]
        for L in list(range(N + 1)) + [x for x in extra if x > N]:
            body = ('char buf[%d]; %s const std::string s(buf, %dUL); const std::optional<%s> r = PhQ::ParseNumber<%s>(s); iout[0] = r.has_value(); out[0] = r.has_value() ? *r : 0;' % (
                max(1, L), ' '.join('buf[%d] = (char)iin[%d];' % (i, i) for i in range(L)), L, ct, ct))
            ws.append((H.Wrapper('w_parsenumber%d_%s' % (L, T), T, 0, T, 1, body, n_iout=1, n_iin=max(1, L), flatten=False, meta={'numberbytes': T, 'strlen': L, 'max_paths': 20000}),
                       'ParseNumber<%s> on every byte string of length %d' % (ct, L)))
    return ws


def family_print(inv, tb, T):
    from . import C15
    ws, obs = C15.generate(inv, tb, T)
    return [(w, 'C15 wrapper %s' % w.name) for w in ws]


# ------------------------------------------------------------------------------------ worker
def worker(ctx):
    pl = ctx.spec.payload
    mode = pl['mode']
    if mode != 'pure':
        ctx.summaries = SM.containers()
        ctx.summaries.update(SM.heap())
        SS.install(ctx.summaries, ctx.unit.mod, summarise_print=(mode != 'print-cascade'))
        ctx.init_tables = 'all'
    for name, desc in pl['items']:
        engine.guarded(ctx, desc, lambda name=name, desc=desc: one(ctx, name, desc))


def one(ctx, name, desc):
    w = ctx.byname.get(name)
    if w is None:
        return
    meta = w.meta or {}
    strings = NUMBER_STRINGS if meta.get('number') else None
    o = no_ub(ctx, w, desc, desc + ': no undefined behaviour and no exception other than std::bad_alloc on any path, for all finite inputs')
    r = ctx.results.get(w.name)
    if r is None or r.error:
        return
    if meta.get('parse'):
        o2 = ctx.ob(desc + ' [result]', 'parse-total', 'GROUND', desc + ': every path returns nothing or a declared enumerator')
        o2.key = o2.oid
        o2.syntactic = True
        bad = []
        for p in r.paths:
            if p.status != 'ret':
                continue
            has, val = p.iout[0], p.iout[1]
            if not (has is not None and tm.is_ic(has) and val is not None and tm.is_ic(val)):
                bad.append('non-constant result on a path')
                continue
            v = val.args[0] - (1 << 64) if val.args[0] >= (1 << 63) else val.args[0]
            if has.args[0] == 0 and v == -1:
                continue
            if has.args[0] == 1 and v in meta['enumvals']:
                continue
            bad.append('returns has_value=%d value=%d' % (has.args[0], v))
        if bad:
            o2.reason = bad[0]
        else:
            o2.verdict = 'discharged'
    if meta.get('number'):
        T = meta['number']
        o2 = ctx.ob(desc + ' [result]', 'parse-total', 'GROUND', desc + ': returns the value std::sto* produced when it returns, nothing when it throws invalid_argument or out_of_range; never throws')
        o2.key = o2.oid
        o2.syntactic = True
        kinds = set()
        bad = []
        for p in r.paths:
            thrown = [e for e in p.events if e[0] == 'throw']
            if p.status != 'ret':
                bad.append('path ends in %s' % p.status)
                continue
            has = p.iout[0]
            if thrown:
                kinds.add(thrown[0][1])
                if not (tm.is_ic(has) and has.args[0] == 0):
                    bad.append('value returned although %s was thrown' % thrown[0][1])
            else:
                kinds.add('value')
                if not (tm.is_ic(has) and has.args[0] == 1 and p.out[0] is not None and p.out[0].op == 'arg' and p.out[0].args[0].startswith('parsed')):
                    bad.append('parsed value not returned unchanged: %s' % (tm.show(p.out[0], 3) if p.out[0] is not None else None))
        if kinds != {'value', 'std::invalid_argument', 'std::out_of_range'}:
            bad.append('outcomes explored: %s' % sorted(kinds))
        if bad:
            o2.reason = bad[0]
            # a path that lets an exception escape is confirmed natively
            rc, txt, src, cmd = san_replay(ctx, w, [], [], NUMBER_STRINGS)
            if rc not in (0, None):
                o2.verdict = 'violated'
                o2.reason = bad[0] + '; native: ' + txt
                o2.replay = core.write_replay(PROP, o2.oid, {'kind': 'program', 'property': PROP, 'obligation': o2.oid, 'statement': o2.desc, 'observed': o2.reason, 'source': src,
                                                            'builds': [{'compiler': cmd[0], 'flags': cmd[1:]}], 'wrappers': [], 'impl': None, 'inputs': []})
        else:
            o2.verdict = 'discharged'


def main():
    rep = core.Report(PROP)
    work, inv = C.setup(PROP)
    tb = unitdata.load(work, inv)
    incs = C.all_includes(work)
    thorough = core.tier() == 'thorough'
    flt = os.environ.get('PHQV_FILTER')
    specs = []

    def add(mode, tag, items, nchunks, extra_clang=(), includes=None):
        items = [(w, d) for w, d in items if not flt or re.search(flt, d)]
        for ci, part in enumerate(engine.chunk(items, nchunks)):
            specs.append(engine.UnitSpec('c20_%s_%d' % (tag, ci), (includes or incs) + ['sstream'], [w for w, d in part],
                                         {'mode': mode, 'items': [(w.name, d) for w, d in part], 'prop': PROP}, extra_src=EXTRA, extra_clang=list(extra_clang), native=False))
    notes = []
    for T in (C.TYPES if thorough else ['f64']):
        fam = family_pure(inv, T)
        for name, w, d in fam:
            if w is None:
                notes.append('%s: %s' % (name, d))
        add('pure', 'pure_' + T, [(w, '%s<%s>' % (d, CT[T])) for name, w, d in fam if w is not None], 32 if T == 'f64' else 16)
    add('tables', 'tables', family_tables(inv, tb), 8, ['-fno-inline'])
    dl = code_derived_lengths(work)
    add('tables', 'parse', family_parse(inv, tb, PARSE_LEN(), dl[0]), 8, ['-fno-inline'])
    add('tables', 'number', family_number(), 1, ['-fno-inline'], includes=['PhQ/Base.hpp'])
    add('tables', 'numberbytes', family_number_bytes(min(PARSE_LEN(), 4), dl[0]), 3, ['-fno-inline'], includes=['PhQ/Base.hpp'])
    add('tables', 'dims', family_dimensions(), 4, ['-fno-inline'], includes=['PhQ/Dimensions.hpp'])
    for T in C.TYPES:
        pw = family_print(inv, tb, T)
        # PhQ::Print itself for all three types (its buffer / precision arithmetic depends on the type); composite forms per tier
        add('print-cascade', 'printc_' + T, [(w, '%s<%s>' % (d, CT[T])) for w, d in pw if w.name.startswith('w_print_')], 1, ['-fno-inline'], includes=['PhQ/Base.hpp'])
        if thorough or T == 'f64':
            add('print', 'print_' + T, [(w, '%s<%s>' % (d, CT[T])) for w, d in pw if not w.name.startswith('w_print_')], 6, ['-fno-inline'])
    results = engine.run_units(specs, worker, work)
    engine.collect(rep, results)
    rep.notes += notes
    rep.bounds = {'numeric_types': list(C.TYPES) if thorough else ['double (thorough: all three)'], 'parse_string_length': PARSE_LEN(), 'parse_lengths_derived_from_code': {'constants': dl[1], 'lengths_added': dl[0]},
                  'paths_per_wrapper_max': 20000, 'enumerations': len(tb)}
    rep.assumptions = ['events are those the executor tracks (see the module docstring); floating-point operations have no undefined behaviour under IEEE 754',
                       'std::stof/stod/stold: documented contract only (value, std::invalid_argument or std::out_of_range)',
                       'libstdc++ containers, strings and streams are summarised; their internals are trusted not to throw anything but std::bad_alloc',
                       'clang 14 IR at -O1; the sanitizer replay uses g++ -fsanitize=address,undefined -D_GLIBCXX_ASSERTIONS']
    rep.explanation = 'every harness family of the other checks is executed symbolically for undefined-behaviour and exception events, each event decided for feasibility by z3 under finite inputs; parsers on symbolic byte strings and contract stubs; sanitizer replay'
    return rep.finish()


if __name__ == '__main__':
    sys.exit(main())
