"""C02 - all conversion entry points agree; a quantity read back in its unit is unchanged (BIT + ROUND).

Everything is compiled -O1 -fno-inline so that the run-time dispatch (std::map::find + std::function) stays visible;
the dispatch tables are built by executing their own dynamic initialisers symbolically (summaries: map constructor,
map::find, map::at, operator new; std::function itself is executed).  Reference = the scalar static conversion
legs to_a and from_b of the same module: expected(a -> b)(x) = from_b(to_a(x)).
  scalar run-time    PhQ::Convert(x, from, to) with BOTH units symbolic: every path's result term equals
                     expected(from -> to); absent-key paths (end() dereference, bad_function_call) must be infeasible
                     for enumerators of the type
  containers         std::array<T,N> (N=1,2,3,6,9), std::vector<T> (sizes 0,1,3,5 quick; 0-5,7,8,9,17 thorough), PlanarVector, Vector, SymmetricDyad,
                     Dyad; in-place, copying and compile-time forms: component i equals the scalar term of component i,
                     copying forms leave their argument unchanged (frame condition on the input buffer)
  quantities         Q(v, u).Value() = to_u(v);  Q.Value(u), Q.StaticValue<u>() = from_u;  Q::Create<u>(v) = to_u(v)
  read-back          Q(v, u).Value(u) and Convert(x, u, u) within 16 ulps of v (ROUND; two roundings by design)
The proofs are of bit-identity (stronger than the property's "within one ulp"); a solver counterexample is reported as a
violation only when its native replay differs by MORE than one ulp, as the property allows.
"""
import sys, re
import z3
from .. import harness as H, inventory as INV, core, engine, terms as tm, modes
from ..terms import mk
from ..irsym import summaries as SM
from . import common as C, unitdata
from .common import CT, cxx, sanitize

PROP = 'C02'
FORMS = {1: None, 2: 'PlanarVector', 3: 'Vector', 6: 'SymmetricDyad', 9: 'Dyad'}


def pick_units(e):
    """representative units of a type: standard s, two distinct non-standard a, b (if they exist)"""
    names = {v: k for k, v in e['enumerators'].items()}
    std = e['standard']
    ns = [k for k in sorted(names) if k != std]
    a = ns[len(ns) // 2] if ns else std
    b = ns[-1] if len(ns) > 1 else (ns[0] if ns else std)
    return names, std, a, b


# std::vector lengths: 5 = one block of four plus a tail for any blocked/unrolled rewrite, 3 = block of two plus tail
VECTOR_SIZES = {True: (0, 1, 3, 5), False: (0, 1, 2, 3, 4, 5, 7, 8, 9, 17)}


_derived = {}


def code_derived_sizes(work, T):
    """std::vector lengths taken from the code ("derive bounds from the code"): the vector forms of Convert /
    ConvertInPlace are compiled on their own and every integer constant c with 8 <= c <= 1024 that occurs as an operand in
    the IR of those functions (a block size, an unroll factor, a mask c-1) yields the lengths c, c+1 and, if <= 1025, 2c:
    an exact multiple of the block, a block plus a tail, two blocks.  The unchanged tree has no such constant."""
    if T in _derived:
        return _derived[T]
    ct = CT[T]
    body = ('std::vector<%s> v(in, in + iin[0]); PhQ::ConvertInPlace(v, static_cast<PhQ::Unit::Length>(iin[1]), static_cast<PhQ::Unit::Length>(iin[2])); '
            'const std::vector<%s> r = PhQ::Convert(v, static_cast<PhQ::Unit::Length>(iin[1]), static_cast<PhQ::Unit::Length>(iin[2])); out[0] = r[0] + v[0];' % (ct, ct))
    w = H.Wrapper('w_sizes_' + T, T, 1, T, 1, body, n_iin=3, flatten=False)
    u = H.Unit(work, 'c02_sizes_' + T, ['PhQ/Unit/Length.hpp'], [w], extra_clang=['-fno-inline'], native=False)
    sizes, consts = [], set()
    try:
        u.write()
        rc, out, err = H.run_cmd(['clang++-14'] + H.CLANG_FLAGS + u.extra_clang + ['-I', H.include_dir(work), u.src, '-o', u.ll])
        if rc == 0:
            cur = None
            for line in open(u.ll):
                if line.startswith('define '):
                    m = re.search(r'@([\w.$]+)\(', line)
                    nm = m.group(1) if m else ''
                    cur = nm if (('Convert' in nm and 'St6vector' in nm) or nm == w.name) else None
                elif line.startswith('}'):
                    cur = None
                elif cur and not re.match(r'\s*(call|invoke|br|ret|store|load|getelementptr|%\S+ = (getelementptr|load|call|invoke|phi|bitcast|alloca))\b', line):
                    for c in re.findall(r'\bi64 (\d+)\b', line) + re.findall(r', (\d+)\s*$', line):
                        c = int(c)
                        if 8 <= c + 1 <= 1024 and (c + 1) & c == 0:   # mask 2^k - 1
                            consts.add(c + 1)
                        elif 8 <= c <= 1024:
                            consts.add(c)
    except Exception:
        pass
    for c in sorted(consts):
        for n in (c, c + 1, 2 * c):
            if n <= 1025 and n not in sizes:
                sizes.append(n)
    _derived[T] = (sizes[:9], sorted(consts))
    return _derived[T]


def generate(inv, tb, T, quantities_of, work=None):
    ws, obs = [], []
    ct = CT[T]
    for q in unitdata.unit_types(tb):
        e = tb[q]
        E = 'PhQ::' + q
        names, std, a, b = pick_units(e)
        tag = sanitize(q) + '_' + T
        units = sorted(names)
        leg = {}
        for k in units:
            for d in ('to', 'from'):
                o_, d_ = (k, std) if d == 'to' else (std, k)
                w = H.Wrapper('w_%s_%s_%d' % (d, tag, k), T, 1, T, 1, 'out[0] = PhQ::ConvertStatically<%s, %s::%s, %s::%s>(in[0]);' % (
                    E, E, names[o_], E, names[d_]), flatten=False)
                ws.append(w)
                leg[(d, k)] = w.name
        rt = H.Wrapper('w_rt_' + tag, T, 1, T, 1, 'out[0] = PhQ::Convert(in[0], static_cast<%s>(iin[0]), static_cast<%s>(iin[1]));' % (E, E), n_iin=2, flatten=False, meta={'iin_domain': [units, units], 'max_paths': 20000})
        ws.append(rt)
        base = {'q': q, 'legs': {'%s:%d' % k: v for k, v in leg.items()}, 'units': units, 'std': std, 'names': {str(k): v for k, v in names.items()}}
        obs.append(dict(base, id='%s run-time scalar Convert, all ordered unit pairs [%s]' % (q, ct), kind='runtime', w=rt.name))
        # container forms for the pairs (a->b), (std->b), (a->std)
        for (f, t_) in (((a, b), (a, std)) if core.tier() == 'quick' else ((a, b), (std, b), (a, std), (a, a))):
            uf, ut = '%s::%s' % (E, names[f]), '%s::%s' % (E, names[t_])
            pid = '%s %s->%s' % (q, names[f], names[t_])
            for n, cls in ((1, 'array'), (2, 'array'), (3, 'array'), (6, 'array'), (9, 'array'), (2, 'PlanarVector'), (3, 'Vector'), (6, 'SymmetricDyad'), (9, 'Dyad')):
                cont = 'std::array<%s, %d>' % (ct, n) if cls == 'array' else 'PhQ::%s<%s>' % (cls, ct)
                load = 'auto c = phqv::get<%s>(in);' % cont
                tpl = '<%s, %d, %s>' % (E, n, ct) if cls == 'array' else ''
                forms = {
                    'copy': '%s const auto r = PhQ::Convert%s(c, %s, %s); phqv::put(out, r);' % (load, tpl, uf, ut),
                    'inplace': '%s PhQ::ConvertInPlace%s(c, %s, %s); phqv::put(out, c);' % (load, tpl, uf, ut),
                    'static': '%s const auto r = PhQ::ConvertStatically<%s, %s, %s>(c); phqv::put(out, r);' % (load, E, uf, ut),
                }
                for fk, body in forms.items():
                    w = H.Wrapper('w_c_%s_%s%d_%s_%d_%d' % (tag, cls[:3], n, fk, f, t_), T, n, T, n, body, flatten=False)
                    ws.append(w)
                    obs.append(dict(base, id='%s %s %s<%d> [%s]' % (pid, fk, cls, n, ct), kind='container', w=w.name, n=n, f=f, t=t_))
            extra = code_derived_sizes(work, T)[0] if (work and q in ('Unit::Length', 'Unit::Temperature') and (f, t_) == (a, b)) else []
            for n in list(VECTOR_SIZES[core.tier() == 'quick']) + [x for x in extra if x not in VECTOR_SIZES[core.tier() == 'quick']]:
                for fk in ('copy', 'inplace'):
                    if fk == 'copy':
                        body = 'const std::vector<%s> v(in, in + %d); const std::vector<%s> r = PhQ::Convert(v, %s, %s); iout[0] = (long)r.size(); for (std::size_t i = 0; i < r.size() && i < %d; ++i) out[i] = r[i]; for (std::size_t i = 0; i < v.size() && i < %d; ++i) out[%d + i] = v[i];' % (
                            ct, n, ct, uf, ut, n, n, n)
                    else:
                        body = 'std::vector<%s> v(in, in + %d); PhQ::ConvertInPlace(v, %s, %s); iout[0] = (long)v.size(); for (std::size_t i = 0; i < v.size() && i < %d; ++i) out[i] = v[i];' % (
                            ct, n, uf, ut, n)
                    w = H.Wrapper('w_v_%s_%d_%s_%d_%d' % (tag, n, fk, f, t_), T, max(n, 1), T, 2 * n if fk == 'copy' else n, body, n_iout=1, flatten=False)
                    ws.append(w)
                    obs.append(dict(base, id='%s %s std::vector size %d [%s]' % (pid, fk, n, ct), kind='vector', w=w.name, n=n, f=f, t=t_, copy=fk == 'copy'))
        # quantities of this unit type
        for Q_, n in quantities_of.get(q.split('::')[1], []):
            cls = FORMS[n]
            valt = ct if cls is None else 'PhQ::%s<%s>' % (cls, ct)
            loadv = ('const %s v = in[0];' % ct) if cls is None else 'const auto v = phqv::get<%s>(in);' % valt
            u = '%s::%s' % (E, names[b])
            QT = cxx(Q_, T)
            qforms = {
                'ctor': ('%s const %s x(v, %s); phqv::put(out, x);' % (loadv, QT, u), 'to'),
                'create': ('%s const %s x = %s::template Create<%s>(v); phqv::put(out, x);' % (loadv, QT, QT, u), 'to'),
                'value': ('const auto x = phqv::get<%s>(in); const auto r = x.Value(%s); phqv::put(out, r);' % (QT, u), 'from'),
                'staticvalue': ('const auto x = phqv::get<%s>(in); const auto r = x.template StaticValue<%s>(); phqv::put(out, r);' % (QT, u), 'from'),
                'readback': ('%s const %s x(v, %s); const auto r = x.Value(%s); phqv::put(out, r);' % (loadv, QT, u, u), 'rb'),
            }
            for fk, (body, d_) in qforms.items():
                w = H.Wrapper('w_q_%s_%s_%s' % (sanitize(Q_), T, fk), T, n, T, n, body, flatten=False)
                ws.append(w)
                obs.append(dict(base, id='%s %s in %s [%s]' % (Q_, fk, names[b], ct), kind='quantity', w=w.name, n=n, dir=d_, u=b))
    return ws, obs


def leg_term(ctx, d, direction, k, T):
    if k == d['std']:
        return tm.arg(T, 'x0')
    r = ctx.result(d['legs']['%s:%d' % (direction, k)])
    if r is None or r.error or r.out[0] is None:
        return None
    return r.out[0]


def expected(ctx, d, f, t, T, x):
    """term of from_t(to_f(x)) with the run-time path's short cuts for the standard unit"""
    a = leg_term(ctx, d, 'to', f, T)
    b = leg_term(ctx, d, 'from', t, T)
    if a is None or b is None:
        return None
    a = tm.substitute(a, {'x0': x})
    return tm.substitute(b, {'x0': a})


def worker(ctx):
    T = ctx.spec.payload['T']
    ctx.summaries = SM.containers()
    ctx.summaries.update(SM.heap())
    ctx.init_tables = 'all'
    for d in ctx.spec.payload['obs']:
        engine.guarded(ctx, d['id'], lambda d=d: one(ctx, T, d))


def one(ctx, T, d):
    w = ctx.byname[d['w']]
    res = ctx.result(d['w'])
    x0 = tm.arg(T, 'x0')
    if d['kind'] == 'runtime':
        o = ctx.ob(d['id'], 'runtime-dispatch', 'BIT', '%s: for every ordered pair of enumerators the run-time path returns the same value as the static legs; no lookup misses' % d['id'])
        o.key = o.oid
        if res is None or res.error:
            o.reason = ctx.why_missing(d['w'])
            return
        k0, k1 = z3.BitVec('k0', 64), z3.BitVec('k1', 64)
        inrange = [z3.Or(*[z3.Extract(7, 0, k) == u for u in d['units']]) for k in (k0, k1)]
        it = modes.Bit()
        bad = []
        npairs = 0
        seen = set()
        for p in res.paths:
            pcz = [it.ev(c) for c in p.pc]
            if p.status != 'ret' or p.ub:
                bad.append(z3.And(*pcz) if pcz else z3.BoolVal(True))
                continue
            keys = path_keys(p.pc, d)
            if keys is None:
                # the path does not pin both units (e.g. an early return): enumerate the pairs consistent with it
                if p.out[0] is None:
                    o.reason = 'path without result'
                    return
                for f in d['units']:
                    for t_ in d['units']:
                        sub = {'k0': tm.ic('i64', f), 'k1': tm.ic('i64', t_)}
                        cs = [tm.substitute(c, sub) for c in p.pc]
                        if any(tm.is_ic(c) and c.args[0] == 0 for c in cs):
                            continue
                        seen.add((f, t_))
                        exp = expected(ctx, d, f, t_, T, x0)
                        if exp is None:
                            o.reason = 'missing leg term'
                            return
                        got = tm.substitute(p.out[0], sub)
                        if exp is not got:
                            cz = [it.ev(c) for c in cs if not tm.is_ic(c)]
                            bad.append(z3.And(z3.Extract(7, 0, k0) == f, z3.Extract(7, 0, k1) == t_, *(cz + [modes.smt_ne(it.ev(exp), it.ev(got))])))
                npairs += 1
                continue
            f, t_ = keys
            seen.add((f, t_))
            exp = expected(ctx, d, f, t_, T, x0)
            if exp is None or p.out[0] is None:
                o.reason = 'missing leg term for pair %s' % (keys,)
                return
            npairs += 1
            if exp is not p.out[0]:
                bad.append(z3.And(*(pcz + [modes.smt_ne(it.ev(exp), it.ev(p.out[0]))])))
        missing = [(f, t_) for f in d['units'] for t_ in d['units'] if (f, t_) not in seen]
        o.desc += ' [%d unit pairs, %d paths]' % (npairs, len(res.paths))
        o.syntactic = False
        if missing:
            o.verdict = 'inconclusive'
            o.reason = 'no path for unit pairs %s' % missing[:3]
            return
        ctx.decide(o, inrange + [z3.Or(*bad) if bad else z3.BoolVal(False)], w, runtime_replay(ctx, w, d, T), grid=True)
        return
    if d['kind'] in ('container', 'vector'):
        n = d['n']
        o = ctx.ob(d['id'], 'container-' + d['kind'], 'BIT', '%s: every component equals the scalar conversion of that component; the argument of a copying form is unchanged' % d['id'])
        if res is None or res.error:
            o.reason = ctx.why_missing(d['w'])
            return
        exp = [expected(ctx, d, d['f'], d['t'], T, tm.arg(T, 'x%d' % i)) for i in range(n)]
        if d['kind'] == 'vector' and d.get('copy'):
            exp = exp + [tm.arg(T, 'x%d' % i) for i in range(n)]
        if any(e is None for e in exp):
            o.reason = 'missing leg term'
            return
        if res.ub:
            o.verdict = 'inconclusive'
            o.reason = 'possible UB: %s %s' % (res.ub[0][1], res.ub[0][2])
            flag_ub(ctx, o, res, w)
            return
        if d['kind'] == 'vector':
            if res.iout[0] is None or not tm.is_ic(res.iout[0]) or res.iout[0].args[0] != n:
                o.verdict = 'inconclusive'
                o.reason = 'vector size is not the concrete %d' % n
                return
        if n == 0:
            o.verdict = 'discharged'
            o.syntactic = True
            return
        ctx.bit_equal(o, res.out, exp, w, key=o.oid, replay=ctx.native_term_replay(w, exp, ulps=1))
        return
    if d['kind'] == 'quantity':
        n = d['n']
        xs = [tm.arg(T, 'x%d' % i) for i in range(n)]
        if d['dir'] == 'rb':
            for i in range(n):
                o = ctx.ob(d['id'] + (' component %d' % i if n > 1 else ''), 'read-back', 'ROUND', '%s: constructing in a unit and reading back in the same unit returns the original number within 16 ulps' % d['id'])
                if res is None or res.error or res.out[i] is None:
                    o.reason = ctx.why_missing(d['w'])
                    continue
                ctx.round_bound(o, res.out[i], (lambda A, x, i=i: x[i]), w, 16, positive=False, mode='ROUND', out_index=i,
                                mag=(lambda A, x, i=i: A.abs(x[i]) + A.const(600)) if d['q'] == 'Unit::Temperature' else None)
            return
        o = ctx.ob(d['id'], 'quantity-entry-point', 'BIT', '%s: every component equals the scalar static conversion leg (%s standard)' % (d['id'], d['dir']))
        if res is None or res.error:
            o.reason = ctx.why_missing(d['w'])
            return
        leg = leg_term(ctx, d, d['dir'], d['u'], T)
        if leg is None:
            o.reason = 'missing leg term'
            return
        exp = [tm.substitute(leg, {'x0': x}) for x in xs]
        if res.ub:
            o.verdict = 'inconclusive'
            o.reason = 'possible UB: %s %s' % (res.ub[0][1], res.ub[0][2])
            flag_ub(ctx, o, res, w)
            return
        ctx.bit_equal(o, res.out, exp, w, key=o.oid, replay=ctx.native_term_replay(w, exp, ulps=1))


def flag_ub(ctx, o, res, w):
    """a UB event on a path with concrete units is definite: report it (no symbolic keys here)"""
    if all(not pc for pc, k, dd in res.ub):
        o.verdict = 'violated'
        o.key = o.oid
        o.reason = 'undefined behaviour on the only path: %s %s' % (res.ub[0][1], res.ub[0][2])
        o.replay = core.write_replay(PROP, o.oid, {'kind': 'observed', 'property': PROP, 'obligation': o.oid, 'statement': o.desc,
                                                  'includes': list(ctx.spec.includes), 'extra_src': '', 'impl': w.name, 'inputs': ['1p0'] * w.n_in,
                                                  'wrappers': [{'name': w.name, 'in_ty': w.in_ty, 'n_in': w.n_in, 'out_ty': w.out_ty, 'n_out': w.n_out, 'n_iout': w.n_iout,
                                                                'n_iin': w.n_iin, 'body': w.body}], 'observed': o.reason})


def path_keys(pc, d):
    """(from, to) enumerator values a path condition pins down"""
    vals = {}
    ne = {'k0': set(), 'k1': set()}
    for c in pc:
        if c.op == 'icmp' and tm.is_ic(c.args[2]):
            fa = tm.free_args(c.args[1])
            if len(fa) != 1:
                continue
            if c.args[0] == 'eq':
                vals[fa[0]] = tm.sval(c.args[2])
            elif c.args[0] == 'ne':
                ne[fa[0]].add(tm.sval(c.args[2]))
    for k in ('k0', 'k1'):
        if k not in vals:
            rest = [u for u in d['units'] if u not in ne[k]]
            if len(rest) == 1:
                vals[k] = rest[0]
    if 'k0' in vals and 'k1' in vals:
        return vals['k0'], vals['k1']
    return None


def runtime_replay(ctx, w, d, T):
    def rp(xs, ks=()):
        # native: compare the run-time conversion with the composition of the natively compiled static legs
        f, t_ = [((int(k) + 128) % 256) - 128 for k in ks[:2]]
        o1, _ = ctx.unit.call_native(w, xs, ks)
        v = xs[0]
        if f != d['std']:
            v = ctx.unit.call_native(ctx.byname[d['legs']['to:%d' % f]], [v])[0][0]
        if t_ != d['std']:
            v = ctx.unit.call_native(ctx.byname[d['legs']['from:%d' % t_]], [v])[0][0]
        return (not engine.close_float(o1[0], v, 1, T)), 'Convert(%s, %s, %s) = %s but the static legs give %s (more than one ulp apart)' % (
            core.hexf(xs[0]), d['names'].get(str(f), f), d['names'].get(str(t_), t_), core.hexf(o1[0]), core.hexf(v))
    rp.case = {'kind': 'observed', 'impl': w.name}
    return rp


def main():
    rep = core.Report(PROP)
    work, inv = C.setup(PROP)
    tb = unitdata.load(work, inv)
    incs = C.all_includes(work)
    types = C.numeric_types()
    quantities_of = {}
    for qn in inv.quantity_names():
        c = inv.classes[qn]
        if c.get('unit'):
            quantities_of.setdefault(c['unit'].replace('Unit::', ''), []).append((qn, c['shape']))
    specs = []
    total = 0
    for T in types:
        ws, obs = generate(inv, tb, T, quantities_of, work)
        obs = C.filter_obs(obs)
        total += len(obs)
        byw = {w.name: w for w in ws}
        # group by unit type so that the leg wrappers are shared
        groups = {}
        for d in obs:
            groups.setdefault(d['q'], []).append(d)
        keys = sorted(groups)
        nchunk = 6 if len(types) == 3 else 16
        for ci, part in enumerate(engine.chunk(keys, nchunk)):
            po = [d for k in part for d in groups[k]]
            names = []
            for d in po:
                for nm in [d['w']] + list(d['legs'].values()):
                    if nm not in names:
                        names.append(nm)
            specs.append(engine.UnitSpec('c02_%s_%d' % (T, ci), incs, [byw[x] for x in names], {'T': T, 'obs': po, 'prop': PROP},
                                         extra_clang=['-fno-inline']))
    results = engine.run_units(specs, worker, work)
    engine.collect(rep, results)
    rep.bounds = {'numeric_types': types, 'obligations_generated': total, 'vector_sizes': list(VECTOR_SIZES[core.tier() == 'quick']), 'vector_sizes_derived_from_code': {t: {'constants_in_vector_forms': _derived[t][1], 'lengths_added_for_Length_and_Temperature': _derived[t][0]} for t in _derived}, 'array_sizes': [1, 2, 3, 6, 9],
                  'unit_pairs': 'scalar run-time path: all ordered pairs of every type (both units symbolic); containers: representative pairs per type (quick: non-standard/non-standard and non-standard/standard; thorough adds standard/non-standard and same unit); quantities: one non-standard unit per quantity',
                  'inputs': 'all bit patterns of every component'}
    rep.assumptions = [
        'summaries: std::map(initializer_list) / find / at over an abstract table with libstdc++ node layout; operator new never fails; std::function, std::array, std::vector code itself is executed',
        'IR of clang 14 at -O1 -fno-inline -ffp-contract=off',
        'the reference is the scalar static leg of the same module, whose numerical correctness is C01\'s subject',
        '"identity" for a non-standard unit is read as "up to rounding" (two legs by design): within 16 ulps (ROUND)',
        'printing/JSON/XML/YAML in a unit are covered by C15 (string forms)']
    rep.explanation = 'every conversion entry point is executed symbolically, including the run-time dispatch built from the tables\' own initialisers, and compared bit for bit with the scalar static conversion of each component'
    return rep.finish()


if __name__ == '__main__':
    sys.exit(main())
