"""C16 - changing floating-point precision casts each component and nothing else (BIT mode).

For every quantity and vector/tensor class and every ordered pair of distinct numeric types, the converting
constructor and the converting assignment (from an ARBITRARY stored pre-state of the destination) are executed
symbolically; each result component must be exactly fpext/fptrunc of the same source component.  Directions
re-normalise: constructor == Direction(cast components) (same executed normalisation term), plus the REAL and
ROUND facts about re-normalising a unit vector.
"""
import sys
import z3
from .. import harness as H, inventory as INV, core, engine, terms as tm, modes
from ..terms import mk
from . import common as C
from .common import CT, cxx, load_arg, sanitize

PROP = 'C16'
WIDTH = {'f32': 0, 'f64': 1, 'f80': 2}
DIRS = ('Direction', 'PlanarDirection')


def pairs():
    if core.tier() == 'thorough' or True:
        return [(a, b) for a in C.TYPES for b in C.TYPES if a != b]


def generate(inv, T1, T2):
    ws, obs = [], []
    names = inv.quantity_names() + [m for m in ('PlanarVector', 'Vector', 'SymmetricDyad', 'Dyad') if m in inv.classes]
    for q in names:
        n = inv.classes[q]['shape']
        tag = '%s_%s_%s' % (sanitize(q), T1, T2)
        src = load_arg('a', q, T1, 0, n)
        # converting constructor
        body = '\n'.join([src, 'const %s b(a);' % cxx(q, T2), 'static_assert(sizeof(b)==%d*sizeof(%s), "layout");' % (n, CT[T2]), 'phqv::put(out, b);'])
        wc = H.Wrapper('w_cc_' + tag, T1, n, T2, n, body)
        ws.append(wc)
        # converting assignment from an arbitrary pre-state (built from n further inputs by plain casts)
        pre = '%s pre[%d]; for (int i = 0; i < %d; ++i) pre[i] = static_cast<%s>(in[%d + i]);' % (CT[T2], n, n, CT[T2], n)
        body = '\n'.join([src, pre, 'auto b = phqv::get<%s>(pre);' % cxx(q, T2), 'b = a;', 'phqv::put(out, b);'])
        wa = H.Wrapper('w_ca_' + tag, T1, 2 * n, T2, n, body)
        ws.append(wa)
        d = {'id': '%s: %s -> %s' % (q, CT[T1], CT[T2]), 'q': q, 'n': n, 'ctor': wc.name, 'assign': wa.name, 'dir': q in DIRS}
        if q in DIRS:
            comps = ', '.join('static_cast<%s>(in[%d])' % (CT[T2], i) for i in range(n))
            body = '\n'.join(['const %s b(%s);' % (cxx(q, T2), comps), 'phqv::put(out, b);'])
            wr = H.Wrapper('w_cr_' + tag, T1, n, T2, n, body)
            ws.append(wr)
            d['renorm'] = wr.name
        if WIDTH[T2] > WIDTH[T1] and q not in DIRS:
            body = '\n'.join([src, 'const %s b(a);' % cxx(q, T2), 'const %s c(b);' % cxx(q, T1), 'phqv::put(out, c);'])
            wr = H.Wrapper('w_rt_' + tag, T1, n, T1, n, body)
            ws.append(wr)
            d['roundtrip'] = wr.name
        obs.append(d)
    return ws, obs


def worker(ctx):
    T1, T2 = ctx.spec.payload['T1'], ctx.spec.payload['T2']
    for d in ctx.spec.payload['obs']:
        engine.guarded(ctx, d['id'], lambda d=d: one(ctx, T1, T2, d))


def one(ctx, T1, T2, d):
    n = d['n']
    castop = 'fpext' if WIDTH[T2] > WIDTH[T1] else 'fptrunc'
    xs = [tm.arg(T1, 'x%d' % i) for i in range(n)]
    spec = [mk(castop, T2, x) for x in xs]
    wc, wa = ctx.byname[d['ctor']], ctx.byname[d['assign']]
    rc, ra = ctx.result(d['ctor']), ctx.result(d['assign'])
    if not d['dir']:
        o = ctx.ob(d['id'] + ' constructor', 'converting-constructor', 'BIT', '%s: every component of the converting constructor is the plain %s of the same source component' % (d['id'], castop))
        if rc is None or rc.error:
            o.reason = ctx.why_missing(d['ctor'])
        else:
            ctx.bit_equal(o, rc.out, spec, wc, key=o.oid, replay=ctx.native_term_replay(wc, spec))
        o = ctx.ob(d['id'] + ' assignment', 'converting-assignment', 'BIT', '%s: converting assignment into an arbitrary pre-state leaves exactly the %s of every source component' % (d['id'], castop))
        if ra is None or ra.error:
            o.reason = ctx.why_missing(d['assign'])
        else:
            ctx.bit_equal(o, ra.out, spec, wa, key=o.oid, replay=ctx.native_term_replay(wa, spec))
        if d.get('roundtrip'):
            wr = ctx.byname[d['roundtrip']]
            rr = ctx.result(d['roundtrip'])
            o = ctx.ob(d['id'] + ' round trip', 'widen-narrow', 'BIT', '%s: widening followed by narrowing is the identity on every component (NaN payload aside)' % d['id'])
            if rr is None or rr.error or any(t is None for t in rr.out):
                o.reason = ctx.why_missing(d['roundtrip'])
            else:
                it = modes.Bit()
                diffs = [z3.And(modes.smt_ne(it.ev(t), it.ev(x))) for t, x in zip(rr.out, xs)]
                o.key = o.oid
                o.syntactic = False
                ctx.decide(o, [z3.Or(*diffs)], wr, ctx.native_term_replay(wr, xs))
    else:
        wr = ctx.byname[d['renorm']]
        rn = ctx.result(d['renorm'])
        o = ctx.ob(d['id'] + ' constructor', 'direction-constructor', 'BIT', '%s: converting constructor == direction built from the plainly cast components (cast, then re-normalise)' % d['id'])
        if rc is None or rc.error or rn is None or rn.error:
            o.reason = ctx.why_missing(d['ctor'] if (rc is None or rc.error) else d['renorm'])
        else:
            ctx.bit_equal(o, rc.out, rn.out, wc, key=o.oid, replay=ctx.native_pair_replay(wc, wr))
        o = ctx.ob(d['id'] + ' assignment', 'direction-assignment', 'BIT', '%s: converting assignment into an arbitrary pre-state is the plain cast of every component, or the re-normalised cast' % d['id'])
        if ra is None or ra.error or rn is None or rn.error:
            o.reason = ctx.why_missing(d['assign'])
        elif all(a is b for a, b in zip(ra.out, spec)):
            ctx.bit_equal(o, ra.out, spec, wa, key=o.oid, replay=ctx.native_term_replay(wa, spec))
        else:
            ctx.bit_equal(o, ra.out, rn.out, wa, key=o.oid, replay=ctx.native_pair_replay(wa, wr))
    for r in (rc, ra):
        if r is not None and not r.error and r.ub:
            o = ctx.ob(d['id'] + ' [ub]', 'ub-side-condition', 'BIT', d['id'] + ': no undefined behaviour on any path')
            o.reason = 'possible UB: %s %s' % (r.ub[0][1], r.ub[0][2])
            break


def main():
    rep = core.Report(PROP)
    work, inv = C.setup(PROP)
    incs = C.all_includes(work)
    specs = []
    total = 0
    for T1, T2 in pairs():
        ws, obs = generate(inv, T1, T2)
        obs = C.filter_obs(obs)
        total += len(ws)
        byw = {w.name: w for w in ws}
        for ci, part in enumerate(engine.chunk(obs, 3)):
            names = [d[k] for d in part for k in ('ctor', 'assign', 'renorm', 'roundtrip') if d.get(k)]
            specs.append(engine.UnitSpec('c16_%s_%s_%d' % (T1, T2, ci), incs, [byw[x] for x in names], {'T1': T1, 'T2': T2, 'obs': part, 'prop': PROP}))
    results = engine.run_units(specs, worker, work)
    engine.collect(rep, results)
    rep.bounds = {'type_pairs': ['%s->%s' % p for p in pairs()], 'wrappers': total,
                  'inputs': 'all bit patterns of every source component and of the destination pre-state'}
    rep.assumptions = ['IR of clang 14 at -O1 -ffp-contract=off', 'operands built by memcpy of raw numbers',
                       'NaN payloads are not distinguished (z3 has one NaN per format)',
                       'the destination pre-state of an assignment is produced from further symbolic inputs by plain casts']
    rep.explanation = 'converting constructor and converting assignment of every class executed symbolically for all six ordered type pairs and compared bit-precisely with fpext/fptrunc of each component'
    return rep.finish()


if __name__ == '__main__':
    sys.exit(main())
