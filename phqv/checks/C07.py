"""C07 - each unit system is coherent: its units combine with factor one.

ground  For each of the 4 unit systems and each of the 37 unit types the consistent unit c(U, s) (table dumped from
        the tree) has, by O-unit, exactly the SI magnitude  prod_i base_s[i] ^ dim_U[i]  where base_s are the system's
        base units (m kg s K | mm g s K | ft slug s degR | in slinch s degR; A, mol, cd shared) - an exact rational
        identity (times the same power of pi), which with C01 (code within a few ulps of the symbol) ties the table to
        the conversion code.  c(U, standard system) = Standard<U>.  RelatedUnitSystem is the inverse of the forward table.
IR      ConsistentUnit<U>(s) with s symbolic over the four systems returns the table entry and map::at never throws;
        RelatedUnitSystem(u) with u symbolic returns s exactly when u is consistent for s and for no other system.
        Three-call sequences RelatedUnitSystem(u1 of U); RelatedUnitSystem(u2 of V); RelatedUnitSystem(u3 of U), and
        three-call sequences ConsistentUnit<U>(s1); ConsistentUnit<V>(s2); ConsistentUnit<U>(s3) over neighbouring unit
        types (all 64 system triples, symbolic) return the table entries - no hidden state between lookups.
"""
import sys
from fractions import Fraction as F
import z3
from .. import harness as H, inventory as INV, core, engine, terms as tm, modes
from ..irsym import summaries as SM, strings as SS
from ..oracle import units as U
from . import common as C, unitdata
from .common import sanitize

PROP = 'C07'
BASES = {
    'MetreKilogramSecondKelvin': ['s', 'm', 'kg', 'A', 'K', 'mol', 'cd'],
    'MillimetreGramSecondKelvin': ['s', 'mm', 'g', 'A', 'K', 'mol', 'cd'],
    'FootPoundSecondRankine': ['s', 'ft', 'slug', 'A', '°R', 'mol', 'cd'],
    'InchPoundSecondRankine': ['s', 'in', 'slinch', 'A', '°R', 'mol', 'cd'],
}


def ground(rep, inv, tb):
    us = tb['UnitSystem']
    sysval = us['enumerators']
    std_sys = us['standard']
    for q in unitdata.unit_types(tb):
        e = tb[q]
        ab = {k: a for k, a in e['abbreviations']}
        names = {v: k for k, v in e['enumerators'].items()}
        cons = {s_: u for s_, u in e['consistent']}
        rel = {u: s_ for u, s_ in e['related']}
        miss = [n for n, v in sysval.items() if v not in cons]
        rep.add(core.ground_ob(PROP, '%s: a consistent unit for every system' % q, 'table-total', '%s: the forward table has an entry for each of the four unit systems' % q, not miss, str(miss)))
        rep.add(core.ground_ob(PROP, '%s: standard system -> standard unit' % q, 'standard', '%s: the consistent unit of the standard unit system is the standard unit' % q,
                               cons.get(std_sys) == e['standard'], 'consistent unit %s, standard unit %s' % (names.get(cons.get(std_sys)), names.get(e['standard']))))
        for sname, sv in sorted(sysval.items()):
            if sv not in cons or sname not in BASES:
                continue
            u = cons[sv]
            v = unitdata.reading(ab.get(u, ''))
            oid = '%s in %s' % (q, sname)
            desc = '%s: the consistent unit %r of %s equals the product of that system\'s base units raised to the type\'s dimension exponents (exact, O-unit)' % (q, ab.get(u), sname)
            if v is None:
                o = core.ground_ob(PROP, oid, 'coherence', desc, True)
                o.verdict = 'inconclusive'
                o.reason = 'O-unit cannot expand %r' % ab.get(u)
                rep.add(o)
                continue
            exp = U.UnitVal(1)
            for i, b in enumerate(BASES[sname]):
                exp = exp * (U.parse(b) ** v.dims[i])
            exp = U.UnitVal(exp.mag, exp.dims, exp.pi)
            ok = exp.mag == v.mag and exp.dims == v.dims and v.pi == 0
            if v.dims == (0,) * 7:
                ok = v.mag == 1 and v.pi == 0          # dimensionless types: the coherent unit is the unit itself (rad, sr, bit)
            rep.add(core.ground_ob(PROP, oid, 'coherence', desc, ok, '%s = %s x pi^%d SI but the base units give %s (ratio %.17g)' % (
                ab.get(u), v.mag, v.pi, exp.mag, float(v.mag / exp.mag) if exp.mag else 0.0)))
        # reverse table is the inverse of the forward table
        bad = []
        for k in sorted(names):
            fw = [s_ for s_, u in cons.items() if u == k]
            want = fw[0] if len(fw) == 1 else None
            if rel.get(k) != want:
                bad.append('%s: related system %s, forward table says %s' % (names[k], rel.get(k), fw))
        rep.add(core.ground_ob(PROP, '%s: reverse lookup is the inverse of the forward table' % q, 'reverse-inverse',
                               '%s: RelatedUnitSystems[u] = s exactly when u is the consistent unit of s and of no other system; absent otherwise' % q, not bad, '; '.join(bad[:3])))


def generate(inv, tb):
    ws, obs = [], []
    types = unitdata.unit_types(tb)
    svals = sorted(tb['UnitSystem']['enumerators'].values())
    for i, q in enumerate(types):
        e = tb[q]
        E = 'PhQ::' + q
        tag = sanitize(q)
        vals = sorted(e['enumerators'].values())
        w1 = H.Wrapper('w_cu_' + tag, 'f64', 0, 'f64', 0, 'iout[0] = (long)PhQ::ConsistentUnit<%s>(static_cast<PhQ::UnitSystem>(iin[0]));' % E,
                       n_iout=1, n_iin=1, flatten=False, meta={'iin_domain': [svals]})
        w2 = H.Wrapper('w_rs_' + tag, 'f64', 0, 'f64', 0,
                       'const std::optional<PhQ::UnitSystem> r = PhQ::RelatedUnitSystem(static_cast<%s>(iin[0])); iout[0] = r.has_value(); iout[1] = r.has_value() ? (long)*r : -1;' % E,
                       n_iout=2, n_iin=1, flatten=False, meta={'iin_domain': [vals]})
        q2 = types[(i + 1) % len(types)]
        E2 = 'PhQ::' + q2
        w3 = H.Wrapper('w_seq_' + tag, 'f64', 0, 'f64', 0,
                       'iout[0] = (long)PhQ::ConsistentUnit<%s>(static_cast<PhQ::UnitSystem>(iin[0])); iout[1] = (long)PhQ::ConsistentUnit<%s>(static_cast<PhQ::UnitSystem>(iin[1])); iout[2] = (long)PhQ::ConsistentUnit<%s>(static_cast<PhQ::UnitSystem>(iin[2]));' % (E, E2, E),
                       n_iout=3, n_iin=3, flatten=False, meta={'iin_domain': [svals, svals, svals]})
        vals2 = sorted(tb[q2]['enumerators'].values())
        rs_call = 'const std::optional<PhQ::UnitSystem> r%d = PhQ::RelatedUnitSystem(static_cast<%s>(iin[%d])); iout[%d] = r%d.has_value(); iout[%d] = r%d.has_value() ? (long)*r%d : -1;'
        w4 = H.Wrapper('w_rseq_' + tag, 'f64', 0, 'f64', 0,
                       ' '.join(rs_call % (j, (E, E2, E)[j], j, 2 * j, j, 2 * j + 1, j, j) for j in range(3)),
                       n_iout=6, n_iin=3, flatten=False, meta={'iin_domain': [vals, vals2, vals]})
        ws += [w1, w2, w3, w4]
        obs.append({'id': q, 'q': q, 'cu': w1.name, 'rs': w2.name, 'seq': w3.name, 'vals': vals, 'svals': svals,
                    'cons': {str(s_): u for s_, u in e['consistent']}, 'cons2': {str(s_): u for s_, u in tb[q2]['consistent']}, 'q2': q2,
                    'rel': {str(u): s_ for u, s_ in e['related']}, 'rel2': {str(u): s_ for u, s_ in tb[q2]['related']}, 'vals2': vals2, 'rseq': w4.name})
    return ws, obs


def worker(ctx):
    ctx.summaries = SM.containers()
    ctx.summaries.update(SM.heap())
    ctx.init_tables = 'all'
    for d in ctx.spec.payload['obs']:
        engine.guarded(ctx, d['id'], lambda d=d: one(ctx, d))


def table_term(key, table, default=None):
    """select chain: value of a finite table at a symbolic key"""
    r = tm.ic('i64', default if default is not None else 0)
    for k, v in table.items():
        r = tm.mk('select', 'i64', tm.mk('icmp', 'i1', 'eq', key, tm.ic('i8', int(k))), tm.ic('i64', v), r)
    return r


def one(ctx, d):
    q = d['q']
    k = [tm.mk('trunc', 'i8', tm.arg('i64', 'k%d' % i)) for i in range(3)]
    kz = [z3.BitVec('k%d' % i, 64) for i in range(3)]

    def dom(i, vals):
        return z3.Or(*[z3.Extract(7, 0, kz[i]) == v for v in vals])

    def check(o, r, w, exp_terms, doms, pyexp=None):
        if r is None or r.error:
            o.reason = ctx.why_missing(w.name)
            return
        it = modes.Bit()
        bad = []
        for p in r.paths:
            pcz = [it.ev(c) for c in p.pc]
            if p.status != 'ret' or p.ub or any(t is None for t in p.iout):
                bad.append(z3.And(*pcz) if pcz else z3.BoolVal(True))
                continue
            diffs = [it.ev(a) != it.ev(b) for a, b in zip(p.iout, exp_terms)]
            bad.append(z3.And(*(pcz + [z3.Or(*diffs)])))
        o.key = o.oid
        ctx.decide(o, doms + [z3.Or(*bad) if bad else z3.BoolVal(False)], w, None, grid=False)
        if o.verdict == 'inconclusive' and o.model and pyexp is not None:
            # replay of the solver's enumerator values against the natively compiled wrapper (same process state as a
            # program making exactly these calls in this order)
            ks = [int(v) & 0xFF for v in o.model]
            try:
                _, got = ctx.unit.call_native(w, [], ks)
                want = pyexp(ks)
            except Exception as e:
                o.reason = 'native replay failed: %s' % e
                return
            if list(got) != list(want):
                o.verdict = 'violated'
                o.reason = 'lookups with enumerator values %s return %s natively, the tables say %s' % (ks, list(got), list(want))
                o.replay = ctx.save_case(o, [], {'kind': 'values', 'impl': w.name, 'expected_out': [], 'expected_iout': list(want)}, ks)
            else:
                o.reason = 'solver model %s does not reproduce natively' % (ks,)
            return
        if o.verdict == 'inconclusive' and o.model:
            o.verdict = 'violated'
            o.reason = 'for enumerator values %s the executed lookup does not return the table entry (or throws / reads past the table)' % (o.model,)
            o.replay = core.write_replay(PROP, o.oid, {'kind': 'ground', 'property': PROP, 'obligation': o.oid, 'statement': o.desc, 'observed': o.reason,
                                                      'includes': [], 'wrappers': [], 'impl': None, 'inputs': []})
    w = ctx.byname[d['cu']]
    o = ctx.ob('%s ConsistentUnit' % q, 'lookup-forward', 'BIT', '%s: ConsistentUnit(s) for a symbolic system s returns the forward table entry; map::at never throws' % q)
    check(o, ctx.result(d['cu']), w, [table_term(k[0], d['cons'])], [dom(0, d['svals'])])
    w = ctx.byname[d['rs']]
    o = ctx.ob('%s RelatedUnitSystem' % q, 'lookup-reverse', 'BIT', '%s: RelatedUnitSystem(u) for a symbolic unit u returns the reverse table entry or nothing' % q)
    has = tm.ic('i64', 0)
    for u in d['rel']:
        has = tm.mk('select', 'i64', tm.mk('icmp', 'i1', 'eq', k[0], tm.ic('i8', int(u))), tm.ic('i64', 1), has)
    check(o, ctx.result(d['rs']), w, [has, table_term(k[0], d['rel'], default=-1)], [dom(0, d['vals'])])
    w = ctx.byname[d['seq']]
    o = ctx.ob('%s lookup sequence with %s' % (q, d['q2']), 'lookup-sequence', 'BIT',
               '%s: three consecutive lookups (this type, the next type, this type again) with symbolic systems each return their table entry - no state carried between lookups' % q)
    check(o, ctx.result(d['seq']), w, [table_term(k[0], d['cons']), table_term(k[1], d['cons2']), table_term(k[2], d['cons'])],
          [dom(0, d['svals']), dom(1, d['svals']), dom(2, d['svals'])])


    w = ctx.byname[d['rseq']]
    o = ctx.ob('%s reverse lookup sequence with %s' % (q, d['q2']), 'lookup-sequence', 'BIT',
               '%s: three consecutive RelatedUnitSystem lookups (this type, the next type, this type again) with symbolic units each return their own reverse table entry or nothing - no state carried between lookups or shared between unit types' % q)

    def has_term(key, rel):
        h = tm.ic('i64', 0)
        for u in rel:
            h = tm.mk('select', 'i64', tm.mk('icmp', 'i1', 'eq', key, tm.ic('i8', int(u))), tm.ic('i64', 1), h)
        return h
    exp = []
    for j, rel in enumerate((d['rel'], d['rel2'], d['rel'])):
        exp += [has_term(k[j], rel), table_term(k[j], rel, default=-1)]
    def pyexp(ks):
        out = []
        for kk, rel in zip(ks, (d['rel'], d['rel2'], d['rel'])):
            out += [1, rel[str(kk)]] if str(kk) in rel else [0, -1]
        return out
    check(o, ctx.result(d['rseq']), w, exp, [dom(0, d['vals']), dom(1, d['vals2']), dom(2, d['vals'])], pyexp)


def main():
    rep = core.Report(PROP)
    work, inv = C.setup(PROP)
    tb = unitdata.load(work, inv)
    ground(rep, inv, tb)
    incs = C.all_includes(work)
    ws, obs = generate(inv, tb)
    obs = C.filter_obs(obs)
    byw = {w.name: w for w in ws}
    specs = []
    for ci, part in enumerate(engine.chunk(obs, 12)):
        names = [d[k_] for d in part for k_ in ('cu', 'rs', 'seq', 'rseq')]
        specs.append(engine.UnitSpec('c07_%d' % ci, incs, [byw[x] for x in names], {'obs': part, 'prop': PROP}, extra_clang=['-fno-inline']))
    results = engine.run_units(specs, worker, work)
    engine.collect(rep, results)
    rep.bounds = {'unit_systems': 4, 'unit_types': len(unitdata.unit_types(tb)), 'sequence_length': 3}
    rep.assumptions = ['O-unit readings of the unit symbols; base units per system as listed in the module docstring',
                       'summaries for std::map construction/find/at over tables built by their own initialisers',
                       'coherence of the conversion CODE (as opposed to the symbol) follows with C01']
    rep.explanation = 'exact rational coherence of every consistent unit by O-unit, and symbolic execution of the forward/reverse lookups (including three-call sequences) against the dumped tables'
    return rep.finish()


if __name__ == '__main__':
    sys.exit(main())
