"""C06 - declared dimension sets equal the dimensions of the units themselves.

ground  for all 514 units: O-unit's exponent vector of the unit's own abbreviation = RelatedDimensions<type> (dumped
        from the tree); hence all units of a type share it.
IR      every quantity's Dimensions() (executed, constants folded by clang) = its unit type's declared set (dimensionless
        quantities: all zero).
BIT     Dimensions and the seven Dimension::X: == != < > <= >= are equality / lexicographic order of the exponent
        7-tuple for all 2^112 pairs of int8 tuples, std::hash<Dimensions> is the polynomial hash of the tuple (C14's
        obligations, run here on these types).
STR     Dimensions::Print() executed with symbolic exponents (std::string summarised, std::to_string uninterpreted):
        on each of the 4^7 = 16384 sign patterns the output is exactly: the non-zero dimensions in the order
        T, L, M, I, Theta, N, J, each printed as Sym, Sym^n (n > 1) or Sym^(n) (n < 0), joined by a middle dot; "1" when all
        are zero.  Dimension::X::Print() likewise.
"""
import sys
import z3
from .. import harness as H, inventory as INV, core, engine, terms as tm, modes
from ..irsym import summaries as SM, strings as SS
from . import common as C, unitdata, C14, C03
from .common import sanitize, cxx

PROP = 'C06'
DIMS = C03.DIMS
SYM = ['T', 'L', 'M', 'I', 'Θ', 'N', 'J']
EXTRA = 'extern "C" void phqv_emit(const std::string&);\n'


def ground(rep, tb):
    for q in unitdata.unit_types(tb):
        e = tb[q]
        bad, unknown = [], []
        for k, a in e['abbreviations']:
            v = unitdata.reading(a)
            if v is None:
                unknown.append(a)
            elif list(v.dims) != e['dimensions']:
                bad.append('%s has dimensions %s, declared %s' % (a, list(v.dims), e['dimensions']))
        o = core.ground_ob(PROP, '%s: declared dimensions = dimensions of every unit symbol' % q, 'unit-dimensions',
                           '%s: the exponent vector O-unit derives from each of the %d unit symbols equals RelatedDimensions (order T,L,M,I,Theta,N,J)' % (q, len(e['abbreviations'])),
                           not bad, '; '.join(bad[:3]))
        if unknown and not bad:
            o.verdict, o.reason = 'inconclusive', 'O-unit cannot expand %s' % unknown[:3]
        rep.add(o)


def generate(inv, tb):
    ws, obs = [], []
    # quantities
    for qn in inv.quantity_names():
        c = inv.classes[qn]
        body = 'const PhQ::Dimensions& d = %s::Dimensions();\n' % cxx(qn, 'f64') + '\n'.join('iout[%d] = d.%s().Value();' % (i, dn) for i, dn in enumerate(DIMS))
        w = H.Wrapper('w_qdims_' + sanitize(qn), 'f64', 0, 'f64', 0, body, n_iout=7, flatten=False)
        ws.append(w)
        unit = c.get('unit')
        exp = tb['Unit::' + unit.replace('Unit::', '')]['dimensions'] if unit and ('Unit::' + unit.replace('Unit::', '')) in tb else [0] * 7
        obs.append({'id': '%s::Dimensions()' % qn, 'kind': 'qdims', 'w': w.name, 'exp': exp, 'unit': unit})
    # printing
    ctor = ', '.join('PhQ::Dimension::%s(static_cast<int8_t>(iin[%d]))' % (d, i) for i, d in enumerate(DIMS))
    w = H.Wrapper('w_dimsprint', 'f64', 0, 'f64', 0, 'const PhQ::Dimensions d(%s); phqv_emit(d.Print());' % ctor, n_iin=7, flatten=False, meta={'max_paths': 70000})
    ws.append(w)
    obs.append({'id': 'Dimensions::Print()', 'kind': 'print7', 'w': w.name})
    for i, d in enumerate(DIMS):
        w = H.Wrapper('w_dimprint_' + d, 'f64', 0, 'f64', 0, 'const PhQ::Dimension::%s d(static_cast<int8_t>(iin[0])); phqv_emit(d.Print());' % d, n_iin=1, flatten=False)
        ws.append(w)
        obs.append({'id': 'Dimension::%s::Print()' % d, 'kind': 'print1', 'w': w.name, 'i': i})
    return ws, obs


def spec_piece(i, e_term, cls):
    """pieces for one dimension given the class of its exponent on the path"""
    sym = SYM[i].encode('utf-8')
    ext = tm.mk('sext', 'i32', e_term)
    if cls == 'zero':
        return ()
    if cls == 'one':
        return (sym,)
    if cls == 'gt1':
        return (sym + b'^', ('tostr', ext))
    return (sym + b'^(', ('tostr', ext), b')')


def classify(pc, kname):
    """class of exponent k on a path: zero / one / gt1 / neg, from the path condition"""
    e = tm.mk('trunc', 'i8', tm.arg('i64', kname))
    eq0 = tm.mk('icmp', 'i1', 'eq', e, tm.ic('i8', 0))
    ids = {c.id for c in pc}
    if eq0.id in ids:
        return 'zero', e
    gt1 = tm.mk('icmp', 'i1', 'sgt', e, tm.ic('i8', 1))
    lt0 = tm.mk('icmp', 'i1', 'slt', e, tm.ic('i8', 0))
    if gt1.id in ids:
        return 'gt1', e
    if lt0.id in ids:
        return 'neg', e
    if tm.negate(eq0).id in ids and tm.negate(gt1).id in ids and tm.negate(lt0).id in ids:
        return 'one', e
    return None, e


def worker(ctx):
    ctx.summaries = SM.containers()
    ctx.summaries.update(SM.heap())
    SS.install(ctx.summaries, ctx.unit.mod)
    ctx.init_tables = None
    for d in ctx.spec.payload['obs']:
        if d['kind'] == 'c14':
            engine.guarded(ctx, d['id'], lambda d=d: C14.one(ctx, 'f64', d))
        else:
            engine.guarded(ctx, d['id'], lambda d=d: one(ctx, d))


def one(ctx, d):
    w = ctx.byname[d['w']]
    r = ctx.result(d['w'])
    if d['kind'] == 'qdims':
        o = ctx.ob(d['id'], 'quantity-dimensions', 'BIT', '%s returns the declared dimension set of its unit type (%s)' % (d['id'], d['unit'] or 'dimensionless: all zero'))
        o.key = o.oid
        if r is None or r.error or any(t is None for t in r.iout):
            o.reason = ctx.why_missing(d['w'])
            return
        it = modes.Bit()
        diffs = [it.ev(tm.mk('trunc', 'i8', t)) != z3.BitVecVal(e, 8) for t, e in zip(r.iout, d['exp'])]
        ctx.decide(o, [z3.Or(*diffs)], w, None, grid=False)
        if o.verdict == 'inconclusive' and 'candidate' in (o.reason or ''):
            got = [tm.sval(tm.mk('trunc', 'i8', t)) if tm.is_ic(t) else '?' for t in r.iout]
            o.verdict = 'violated'
            o.reason = 'returns %s, declared %s' % (got, d['exp'])
            o.replay = core.write_replay(PROP, o.oid, {'kind': 'ground', 'property': PROP, 'obligation': o.oid, 'statement': o.desc, 'observed': o.reason,
                                                      'includes': [], 'wrappers': [], 'impl': None, 'inputs': []})
        return
    n = 7 if d['kind'] == 'print7' else 1
    o = ctx.ob(d['id'], 'dimension-print', 'STR', '%s: on every sign pattern of the exponents the printed form is the specified one (symbols in order T,L,M,I,Theta,N,J, ^n for n>1, ^(n) for n<0, middle-dot separators, "1" if dimensionless)' % d['id'])
    o.key = o.oid
    if r is None or r.error:
        o.reason = ctx.why_missing(d['w'])
        return
    wrong = []
    patterns = set()
    for p in r.paths:
        em = [e for e in p.events if e[0] == 'emit']
        if p.status != 'ret' or p.ub or not em:
            wrong.append('path ends in %s %s' % (p.status, p.ub[:1]))
            continue
        cls = []
        spec = []
        for j in range(n):
            i = d.get('i', j)
            c, e = classify(p.pc, 'k%d' % j)
            cls.append(c)
            if c is None:
                break
            piece = spec_piece(i, e, c)
            if piece:
                if spec:
                    spec.append('·'.encode('utf-8'))
                spec.extend(piece)
        if None in cls:
            wrong.append('cannot classify a path condition')
            continue
        patterns.add(tuple(cls))
        if n == 7 and not spec:
            spec = [b'1']
        if SS.norm(spec) != SS.norm(em[-1][1]):
            wrong.append('exponents %s: prints %r, specified %r' % (cls, SS.render(em[-1][1]), SS.render(SS.norm(spec))))
    if len(patterns) != 4 ** n:
        wrong.append('%d sign patterns reached, %d expected' % (len(patterns), 4 ** n))
    o.syntactic = False
    o.hash = o.oid
    # the solver's part: the sign patterns partition the space of int8 tuples (no tuple escapes the case split)
    ks = [z3.Extract(7, 0, z3.BitVec('k%d' % j, 64)) for j in range(n)]
    v, _, secs, smt = core.solve([z3.Not(z3.And(*[z3.Or(k == 0, k == 1, k > 1, k < 0) for k in ks]))], 10000, want_smt=True)
    o.secs, o.smt = secs, smt
    if wrong or v != 'unsat':
        o.verdict = 'violated' if wrong else 'inconclusive'
        o.reason = '; '.join(wrong[:3]) or 'case split not exhaustive'
        if wrong:
            o.replay = core.write_replay(PROP, o.oid, {'kind': 'ground', 'property': PROP, 'obligation': o.oid, 'statement': o.desc, 'observed': o.reason,
                                                      'includes': [], 'wrappers': [], 'impl': None, 'inputs': []})
    else:
        o.verdict = 'discharged'
        o.desc += ' [%d paths]' % len(r.paths)


def main():
    rep = core.Report(PROP)
    work, inv = C.setup(PROP)
    tb = unitdata.load(work, inv)
    ground(rep, tb)
    incs = C.all_includes(work)
    ws, obs = generate(inv, tb)
    ws14, obs14 = C14.generate(inv, 'f64')
    keep = [d for d in obs14 if d['id'] == 'Dimensions' or d['id'].startswith('Dimension::')]
    for d in keep:
        d['kind0'] = d['kind']
    w14 = {w.name: w for w in ws14}
    obs = C.filter_obs(obs)
    byw = {w.name: w for w in ws}
    specs = []
    parts = engine.chunk([d for d in obs if d['kind'] == 'qdims'], 6)
    for ci, part in enumerate(parts):
        specs.append(engine.UnitSpec('c06_q%d' % ci, incs, [byw[d['w']] for d in part], {'obs': part, 'prop': PROP}, extra_src=EXTRA, extra_clang=['-fno-inline'], native=False))
    pr = [d for d in obs if d['kind'].startswith('print')]
    for ci, part in enumerate(engine.chunk(pr, 2)):
        specs.append(engine.UnitSpec('c06_p%d' % ci, ['PhQ/Dimensions.hpp', 'sstream'], [byw[d['w']] for d in part], {'obs': part, 'prop': PROP}, extra_src=EXTRA, extra_clang=['-fno-inline'], native=False))
    results = engine.run_units(specs, worker, work)
    engine.collect(rep, results)
    # comparison / hash of Dimensions and Dimension::X: C14's machinery (flattened wrappers, native validation)
    spec14 = [engine.UnitSpec('c06_cmp', ['PhQ/Dimensions.hpp'], [w14[x] for d in keep for x in (d.get('parts') or [d['w']])], {'T': 'f64', 'obs': keep, 'prop': PROP})]
    results14 = engine.run_units(spec14, C14.worker, work)
    engine.collect(rep, results14)
    rep.bounds = {'units': sum(len(tb[q]['abbreviations']) for q in unitdata.unit_types(tb)), 'quantities': len(inv.quantity_names()),
                  'exponents': 'all int8 values of all seven exponents (order/hash: all 2^112 pairs; printing: 16384 sign patterns, digits of each exponent by an uninterpreted std::to_string)'}
    rep.assumptions = ['O-unit gives the dimensions of each unit symbol', 'std::to_string(int) is uninterpreted: the digits themselves are libstdc++\'s', 'std::string summaries (phqv/irsym/strings.py)']
    rep.explanation = 'declared dimension sets against the O-unit reading of all unit symbols; comparison operators and hash bit-precisely; Print() by symbolic execution over all sign patterns'
    return rep.finish()


if __name__ == '__main__':
    sys.exit(main())
