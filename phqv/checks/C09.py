"""C09 - vectors and tensors implement Euclidean tensor algebra.

Every algebraic member / operator of PlanarVector, Vector, SymmetricDyad and Dyad (all product overloads, both cofactor
implementations, both determinants, both inverses) is executed symbolically and compared, one query per output
component, with O-tensor's mechanically expanded index-notation definition:
  REAL   identical over the reals (so: exact on integer-valued inputs as long as nothing is rounded)
  ROUND  within K ulps of the sum of the magnitudes of the terms (condition-aware: relative to the result a few ulps
         are impossible under cancellation), by solver-checked local error lemmas
  BIT    Inverse() is present exactly when the computed determinant compares unequal to zero
  REAL   Inverse() = adjugate / determinant when the determinant is not zero (hence Inverse * A = I)
Symmetric and planar operands are specified through their embeddings in the general dyad / vector, so agreement with
the embedded computation is part of every identity.
"""
import sys
import z3
from .. import harness as H, inventory as INV, core, engine, terms as tm, modes
from ..terms import mk
from ..oracle import tensor as OT
from . import common as C
from .common import CT, load_arg, store_res

PROP = 'C09'
K = 8
N = OT.IDX


def ops():
    R = []

    def op(name, shapes, expr, res, spec, **kw):
        R.append({'name': name, 'shapes': shapes, 'expr': expr, 'res': res, 'spec': spec, 'kw': kw})
    V, P, S, D = 'Vector', 'PlanarVector', 'SymmetricDyad', 'Dyad'

    def args(shapes, x, zero):
        out = []
        o = 0
        for s in shapes:
            c = x[o:o + N[s]]
            o += N[s]
            out.append(OT.vec(s, c, zero) if s in (V, P) else OT.mat(s, c))
        return out
    for s in (V, P):
        op('%s.Dot(%s)' % (s, s), [s, s], 'a0.Dot(a1)', None, lambda a, z: [OT.dot(a[0], a[1])])
        op('%s.Cross(%s)' % (s, s), [s, s], 'a0.Cross(a1)', V, lambda a, z: OT.cross(a[0], a[1]))
        op('%s.Dyadic(%s)' % (s, s), [s, s], 'a0.Dyadic(a1)', D, lambda a, z: OT.flat(D, OT.dyadic(a[0], a[1])))
        op('%s.MagnitudeSquared()' % s, [s], 'a0.MagnitudeSquared()', None, lambda a, z: [OT.dot(a[0], a[0])])
        op('%s.Magnitude()' % s, [s], 'a0.Magnitude()', None, lambda a, z: [OT.dot(a[0], a[0])], sqrt=True)
    op('Vector(PlanarVector)', [P], 'PhQ::Vector<T>(a0)', V, lambda a, z: a[0])
    for s in (S, D):
        op('%s.Trace()' % s, [s], 'a0.Trace()', None, lambda a, z: [OT.trace(a[0])])
        op('%s.Determinant()' % s, [s], 'a0.Determinant()', None, lambda a, z: [OT.det(a[0])])
        op('%s.Transpose()' % s, [s], 'a0.Transpose()', s, lambda a, z, s=s: OT.flat(s, OT.transpose(a[0])))
        op('%s.Cofactors()' % s, [s], 'a0.Cofactors()', s, lambda a, z, s=s: OT.flat(s, OT.cofactors(a[0])))
        op('%s.Adjugate()' % s, [s], 'a0.Adjugate()', s, lambda a, z, s=s: OT.flat(s, OT.adjugate(a[0])))
        op('%s.Inverse()' % s, [s], 'a0.Inverse()', s, lambda a, z, s=s: OT.flat(s, OT.adjugate(a[0])), inverse=True)
        for v in (V, P):
            op('%s * %s' % (s, v), [s, v], 'a0 * a1', V, lambda a, z: OT.matvec(a[0], a[1]))
        for t in (S, D):
            op('%s * %s' % (s, t), [s, t], 'a0 * a1', D, lambda a, z: OT.flat(D, OT.matmul(a[0], a[1])))
    op('Dyad(SymmetricDyad)', [S], 'PhQ::Dyad<T>(a0)', D, lambda a, z: OT.flat(D, a[0]))
    op('Dyad.IsSymmetric()', [D], 'a0.IsSymmetric()', 'bool', None, issym=True)
    for r in R:
        r['args'] = args
    return R


def generate(inv, T):
    ws, obs = [], []
    for k, r in enumerate(ops()):
        if any(s not in inv.classes for s in r['shapes']):
            continue
        lines = []
        off = 0
        for i, s in enumerate(r['shapes']):
            lines.append(load_arg('a%d' % i, s, T, off, N[s]))
            off += N[s]
        expr = r['expr'].replace('<T>', '<%s>' % CT[T])
        kw = r['kw']
        nres = 1 if r['res'] in (None, 'bool') else N[r['res']]
        name = 'w_t_%d_%s' % (k, T)
        if kw.get('inverse'):
            lines.append('const auto r = %s; iout[0] = r.has_value(); if (r.has_value()) { phqv::put(out, *r); } else { for (int i = 0; i < %d; ++i) out[i] = 0; }' % (expr, nres))
            ws.append(H.Wrapper(name, T, off, T, nres, '\n'.join(lines), n_iout=1))
            lines2 = lines[:-1] + ['out[0] = a0.Determinant();']
            ws.append(H.Wrapper(name + '_det', T, off, T, 1, '\n'.join(lines2)))
            lines3 = lines[:-1] + [store_res('a0.Adjugate()', r['res'], T, nres)]
            ws.append(H.Wrapper(name + '_adj', T, off, T, nres, '\n'.join(lines3)))
        elif r['res'] == 'bool':
            lines.append('iout[0] = %s;' % expr)
            ws.append(H.Wrapper(name, T, off, T, 0, '\n'.join(lines), n_iout=1))
        else:
            lines.append(store_res(expr, r['res'], T, nres))
            ws.append(H.Wrapper(name, T, off, T, nres, '\n'.join(lines)))
        obs.append({'id': '%s [%s]' % (r['name'], CT[T]), 'k': k, 'w': name, 'n': nres, 'nin': off})
    return ws, obs


def worker(ctx):
    T = ctx.spec.payload['T']
    R = ops()
    for d in ctx.spec.payload['obs']:
        engine.guarded(ctx, d['id'], lambda d=d: one(ctx, T, R[d['k']], d))


def one(ctx, T, r, d):
    w = ctx.byname[d['w']]
    res = ctx.result(d['w'])
    kw = r['kw']
    xs = [tm.arg(T, 'x%d' % i) for i in range(d['nin'])]
    if kw.get('issym'):
        o = ctx.ob(d['id'], 'tensor-predicate', 'BIT', '%s: true exactly when xy = yx, xz = zx and yz = zy' % d['id'])
        o.key = o.oid
        if res is None or res.error or res.iout[0] is None:
            o.reason = ctx.why_missing(d['w'])
            return
        it = modes.Bit()
        S_ = modes.FSORT[T]
        x = [z3.FP('x%d' % i, S_) for i in range(9)]
        spec = z3.And(z3.fpEQ(x[1], x[3]), z3.fpEQ(x[2], x[6]), z3.fpEQ(x[5], x[7]))
        ctx.decide(o, [it.ev(res.iout[0]) != z3.If(spec, z3.BitVecVal(1, 64), z3.BitVecVal(0, 64))], w, None)
        return

    def spec_comp(i, mag=False, squared=False):
        def f(A, x):
            zero = A.const(0)
            if mag:
                a = r['args'](r['shapes'], [OT.Mag(A.abs(v)) for v in x], OT.Mag(zero))
                v = r['spec'](a, zero)[i]
                return v.v if isinstance(v, OT.Mag) else A.abs(v)
            a = r['args'](r['shapes'], list(x), zero)
            v = r['spec'](a, zero)[i]
            if kw.get('sqrt') and not squared:
                return A.sqrt(v)
            return v
        return f
    if kw.get('inverse'):
        rd = ctx.result(d['w'] + '_det')
        o = ctx.ob(d['id'] + ' [presence]', 'inverse-presence', 'BIT', '%s: present exactly when the computed determinant is not zero' % d['id'])
        if res is None or res.error or rd is None or rd.error or res.iout[0] is None or rd.out[0] is None:
            o.reason = ctx.why_missing(d['w'])
            return
        exp = mk('zext', 'i64', mk('fcmp', 'i1', 'une', rd.out[0], tm.fc(T, 0)))
        o.key = o.oid
        it = modes.Bit()
        o.syntactic = exp is res.iout[0]
        ctx.decide(o, [it.ev(res.iout[0]) != it.ev(exp)] if exp is not res.iout[0] else [z3.BoolVal(False)], w, inverse_presence_replay(ctx, w, ctx.byname[d['w'] + '_det']))
        # the quotient step: bit-identical to the library's own Adjugate() divided by its own Determinant() in the numeric
        # type of the tensor (both are checked against O-tensor on their own) - a detour through a narrower type shows here
        ra = ctx.result(d['w'] + '_adj')
        oq = ctx.ob(d['id'] + ' [quotient]', 'inverse-quotient', 'BIT', '%s: when present, every component is exactly Adjugate() component / Determinant() in the tensor\'s numeric type' % d['id'])
        if ra is None or ra.error or any(t is None for t in ra.out) or any(t is None for t in res.out):
            oq.reason = ctx.why_missing(d['w'] + '_adj')
        else:
            present = mk('icmp', 'i1', 'ne', res.iout[0], tm.ic('i64', 0))
            expq = [mk('fdiv', T, ra.out[i], rd.out[0]) for i in range(d['n'])]
            ctx.bit_equal(oq, res.out, expq, w, assumptions=[present], key=oq.oid, replay=quotient_replay(ctx, w, ctx.byname[d['w'] + '_adj'], ctx.byname[d['w'] + '_det']))
        for i in range(d['n']):
            oi = ctx.ob(d['id'] + ' component %d [identity]' % i, 'inverse-identity', 'REAL', '%s component %d: equals adjugate / determinant whenever the determinant is not zero (so Inverse * A = A * Inverse = I)' % (d['id'], i))
            if res.out[i] is None:
                oi.reason = ctx.why_missing(d['w'])
                continue

            def spec_inv(A, x, i=i):
                zero = A.const(0)
                a = r['args'](r['shapes'], list(x), zero)
                return r['spec'](a, zero)[i] / OT.det(a[0])

            def assume_det(A, x):
                zero = A.const(0)
                a = r['args'](r['shapes'], list(x), zero)
                return [OT.det(a[0]) != 0]
            ctx.round_bound(oi, res.out[i], spec_inv, w, 0, positive=False, mode='REAL', out_index=i, assume=assume_det)
        return
    for i in range(d['n']):
        comp = '' if d['n'] == 1 else ' component %d' % i
        o1 = ctx.ob(d['id'] + comp + ' [identity]', 'tensor-identity', 'REAL', '%s%s: equals the index-notation definition over the reals' % (d['id'], comp))
        o2 = ctx.ob(d['id'] + comp + ' [rounding]', 'tensor-rounding', 'ROUND', '%s%s: within %d ulps of the sum of the magnitudes of the terms' % (d['id'], comp, K))
        if res is None or res.error or res.out[i] is None:
            o1.reason = o2.reason = ctx.why_missing(d['w'])
            continue
        ctx.round_bound(o1, res.out[i], spec_comp(i), w, 0, positive=False, mode='REAL', out_index=i)
        if tm.count_ops(res.out[i]) == 0:
            o2.verdict = 'discharged'
            o2.syntactic = True
            continue
        if kw.get('sqrt'):
            ctx.round_bound(o2, res.out[i], spec_comp(i), w, K, positive=False, mode='ROUND', out_index=i)
        else:
            ctx.round_bound(o2, res.out[i], spec_comp(i), w, K, positive=False, mag=spec_comp(i, mag=True), mode='ROUND', out_index=i)


def quotient_replay(ctx, w, wadj, wdet):
    import numpy as np

    def rp(xs):
        o, io = ctx.unit.call_native(w, xs)
        if not io[0]:
            return False, 'inverse absent for these inputs'
        a, _ = ctx.unit.call_native(wadj, xs)
        dt, _ = ctx.unit.call_native(wdet, xs)
        exp = [x / dt[0] for x in a]
        bad = [i for i in range(len(o)) if not engine.same_float(o[i], exp[i])]
        return bool(bad), 'inputs=%s Inverse()=%s Adjugate()/Determinant()=%s' % ([core.hexf(x) for x in xs], [core.hexf(x) for x in o], [core.hexf(x) for x in exp])
    rp.case = {'kind': 'observed', 'impl': w.name}
    return rp


def inverse_presence_replay(ctx, w, wdet):
    def rp(xs):
        o, io = ctx.unit.call_native(w, xs)
        dt, _ = ctx.unit.call_native(wdet, xs)
        exp = int(dt[0] != 0)
        return io[0] != exp, 'inputs=%s: Inverse() %s but Determinant() = %r' % ([core.hexf(x) for x in xs], 'present' if io[0] else 'absent', dt[0])
    rp.case = {'kind': 'observed', 'impl': w.name}
    return rp


def main():
    rep = core.Report(PROP)
    work, inv = C.setup(PROP)
    incs = ['PhQ/Dyad.hpp', 'PhQ/SymmetricDyad.hpp', 'PhQ/Vector.hpp', 'PhQ/PlanarVector.hpp', 'PhQ/Direction.hpp', 'PhQ/PlanarDirection.hpp', 'PhQ/Angle.hpp']
    types = C.numeric_types()
    specs = []
    total = 0
    for T in types:
        ws, obs = generate(inv, T)
        obs = C.filter_obs(obs)
        total += len(obs)
        byw = {w.name: w for w in ws}
        for ci, part in enumerate(engine.chunk(obs, 5)):
            names = []
            for d in part:
                names.append(d['w'])
                for suffix in ('_det', '_adj'):
                    if d['w'] + suffix in byw:
                        names.append(d['w'] + suffix)
            specs.append(engine.UnitSpec('c09_%s_%d' % (T, ci), incs, [byw[x] for x in names], {'T': T, 'obs': part, 'prop': PROP}))
    results = engine.run_units(specs, worker, work)
    engine.collect(rep, results)
    rep.bounds = {'numeric_types': types, 'operations': total, 'K_ulps': K, 'inputs': 'all real components; every admissible rounding error'}
    rep.assumptions = ['standard model of rounding, no overflow/underflow', '"well-conditioned" is replaced by the explicit bound K * ulp(sum of |terms|)',
                       'exactness on integer-valued inputs is read off the REAL identity (no rounding occurs while every intermediate is an integer below 2^p); not separately bounded',
                       'IR of clang 14 at -O1 -ffp-contract=off']
    rep.explanation = 'every tensor-algebra entry point executed symbolically and compared per component with mechanically expanded index-notation definitions: identity over the reals, rounding bound by solver-checked lemmas, inverse presence bit-precisely'
    return rep.finish()


if __name__ == '__main__':
    sys.exit(main())
