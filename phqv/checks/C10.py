"""C10 - directions are unit vectors; magnitude times direction rebuilds the vector.

kernels     Direction(x, y, z) and PlanarDirection(x, y) executed symbolically:
            REAL  every component equals x_i / sqrt(sum x_j^2) whenever the input is not the zero vector (unit length,
                  parallel, same sense and degree-0 homogeneity are consequences of this one identity)
            ROUND every component within 7 * 2^-p (relative) of that value, by solver-checked local lemmas, and a lemma
                  (z3 nlsat) that component errors of that size keep the Euclidean length within 4 ulps of one
            BIT   the zero vector (any signs of zero) gives exactly +0 in every component
paths       every other construction path (array, vector, Vector::Direction(), every vector quantity's Direction() and
            Direction(quantity), the 2-D/3-D conversions, the cross products of directions) is bit-identical (BIT) to the
            kernel applied to the components it is given - so no public path stores a vector without normalising it
quantities  for each of the 17 vector quantities: Magnitude() has the scalar quantity type of the same unit (static_assert
            in the generated code) and is bit-identical to the Euclidean norm kernel; x()/y()/z() return the matching
            components; Q(scalar, direction) is s * d_i; Q(q.Magnitude(), q.Direction()) = q over the reals and within
            16 ulps (ROUND).
"""
import sys
import z3
from fractions import Fraction as F
from .. import harness as H, inventory as INV, core, engine, terms as tm, modes
from ..terms import mk
from . import common as C
from .common import CT, cxx, load_arg, store_res, sanitize

PROP = 'C10'
KC = 7


def vector_quantities(inv):
    out = []
    for q in inv.quantity_names():
        c = inv.classes[q]
        if c['shape'] in (2, 3) and q not in ('Direction', 'PlanarDirection'):
            out.append((q, c['shape']))
    return out


def generate(inv, T):
    ws, obs = [], []
    ct = CT[T]

    def W(name, nin, nout, body, **kw):
        w = H.Wrapper('w_%s_%s' % (name, T), T, nin, T, nout, body, **kw)
        ws.append(w)
        return w.name
    k3 = W('k3', 3, 3, 'const PhQ::Direction<%s> d(in[0], in[1], in[2]); phqv::put(out, d);' % ct)
    k2 = W('k2', 2, 2, 'const PhQ::PlanarDirection<%s> d(in[0], in[1]); phqv::put(out, d);' % ct)
    obs.append({'id': 'Direction(x, y, z) [%s]' % ct, 'kind': 'kernel', 'w': k3, 'n': 3})
    obs.append({'id': 'PlanarDirection(x, y) [%s]' % ct, 'kind': 'kernel', 'w': k2, 'n': 2})
    paths3 = {
        'Direction(std::array)': 'const std::array<%s, 3> a{in[0], in[1], in[2]}; const PhQ::Direction<%s> d(a); phqv::put(out, d);' % (ct, ct),
        'Direction(Vector)': 'const auto v = phqv::get<PhQ::Vector<%s>>(in); const PhQ::Direction<%s> d(v); phqv::put(out, d);' % (ct, ct),
        'Vector::Direction()': 'const auto v = phqv::get<PhQ::Vector<%s>>(in); phqv::put(out, v.Direction());' % ct,
        'Direction::Set(x, y, z)': 'PhQ::Direction<%s> d; d.Set(in[0], in[1], in[2]); phqv::put(out, d);' % ct,
        'Direction::Set(std::array)': 'const std::array<%s, 3> a{in[0], in[1], in[2]}; PhQ::Direction<%s> d; d.Set(a); phqv::put(out, d);' % (ct, ct),
        'Direction::Set(Vector)': 'const auto v = phqv::get<PhQ::Vector<%s>>(in); PhQ::Direction<%s> d; d.Set(v); phqv::put(out, d);' % (ct, ct),
    }
    paths2 = {
        'PlanarDirection(std::array)': 'const std::array<%s, 2> a{in[0], in[1]}; const PhQ::PlanarDirection<%s> d(a); phqv::put(out, d);' % (ct, ct),
        'PlanarDirection(PlanarVector)': 'const auto v = phqv::get<PhQ::PlanarVector<%s>>(in); const PhQ::PlanarDirection<%s> d(v); phqv::put(out, d);' % (ct, ct),
        'PlanarVector::PlanarDirection()': 'const auto v = phqv::get<PhQ::PlanarVector<%s>>(in); phqv::put(out, v.PlanarDirection());' % ct,
        'PlanarDirection::Set(x, y)': 'PhQ::PlanarDirection<%s> d; d.Set(in[0], in[1]); phqv::put(out, d);' % ct,
        'PlanarDirection::Set(PlanarVector)': 'const auto v = phqv::get<PhQ::PlanarVector<%s>>(in); PhQ::PlanarDirection<%s> d; d.Set(v); phqv::put(out, d);' % (ct, ct),
    }
    for j, (nm, body) in enumerate(paths3.items()):
        obs.append({'id': '%s [%s]' % (nm, ct), 'kind': 'path', 'w': W('p3_%d' % j, 3, 3, body), 'n': 3, 'kern': k3})
    for j, (nm, body) in enumerate(paths2.items()):
        obs.append({'id': '%s [%s]' % (nm, ct), 'kind': 'path', 'w': W('p2_%d' % j, 2, 2, body), 'n': 2, 'kern': k2})
    # conversions between planar and 3-D directions, cross products
    obs.append({'id': 'Direction(PlanarDirection) [%s]' % ct, 'kind': 'pathx', 'n': 3, 'kern': k3, 'args': [0, 1, None],
                'w': W('e23', 2, 3, 'const auto p = phqv::get<PhQ::PlanarDirection<%s>>(in); const PhQ::Direction<%s> d(p); phqv::put(out, d);' % (ct, ct))})
    obs.append({'id': 'PlanarDirection(Direction) [%s]' % ct, 'kind': 'pathx', 'n': 2, 'kern': k2, 'args': [0, 1],
                'w': W('e32', 3, 2, 'const auto d = phqv::get<PhQ::Direction<%s>>(in); const PhQ::PlanarDirection<%s> p(d); phqv::put(out, p);' % (ct, ct))})
    cr3 = W('cr3ref', 6, 3, 'const auto a = phqv::get<PhQ::Vector<%s>>(in); const auto b = phqv::get<PhQ::Vector<%s>>(in+3); phqv::put(out, a.Cross(b));' % (ct, ct))
    obs.append({'id': 'Direction::Cross(Direction) [%s]' % ct, 'kind': 'pathref', 'n': 3, 'kern': k3, 'ref': cr3,
                'w': W('cr3', 6, 3, 'const auto a = phqv::get<PhQ::Direction<%s>>(in); const auto b = phqv::get<PhQ::Direction<%s>>(in+3); phqv::put(out, a.Cross(b));' % (ct, ct))})
    cr2 = W('cr2ref', 4, 3, 'const auto a = phqv::get<PhQ::PlanarVector<%s>>(in); const auto b = phqv::get<PhQ::PlanarVector<%s>>(in+2); phqv::put(out, a.Cross(b));' % (ct, ct))
    obs.append({'id': 'PlanarDirection::Cross(PlanarDirection) [%s]' % ct, 'kind': 'pathref', 'n': 3, 'kern': k3, 'ref': cr2,
                'w': W('cr2', 4, 3, 'const auto a = phqv::get<PhQ::PlanarDirection<%s>>(in); const auto b = phqv::get<PhQ::PlanarDirection<%s>>(in+2); phqv::put(out, a.Cross(b));' % (ct, ct))})
    # vector quantities
    mag3 = W('mag3', 3, 1, 'out[0] = phqv::get<PhQ::Vector<%s>>(in).Magnitude();' % ct)
    mag2 = W('mag2', 2, 1, 'out[0] = phqv::get<PhQ::PlanarVector<%s>>(in).Magnitude();' % ct)
    sh = C.Shapes(inv)
    for q, n in vector_quantities(inv):
        c = inv.classes[q]
        QT = cxx(q, T)
        kern, magk = (k3, mag3) if n == 3 else (k2, mag2)
        dname = 'Direction' if n == 3 else 'PlanarDirection'
        tag = sanitize(q)
        meths = {m['name']: m for m in c['members'] if m['kind'] == 'method' and m['access'] == 'public'}
        get = 'const auto q = phqv::get<%s>(in);' % QT
        if dname in meths:
            obs.append({'id': '%s::%s() [%s]' % (q, dname, ct), 'kind': 'path', 'n': n, 'kern': kern,
                        'w': W('qd_' + tag, n, n, '%s phqv::put(out, q.%s());' % (get, dname))})
            obs.append({'id': '%s(%s) [%s]' % (dname, q, ct), 'kind': 'path', 'n': n, 'kern': kern,
                        'w': W('dq_' + tag, n, n, '%s const PhQ::%s<%s> d(q); phqv::put(out, d);' % (get, dname, ct))})
        if 'Magnitude' in meths:
            sq = INV.qname(meths['Magnitude']['ret'].replace('PhQ::', ''))
            unit_ok = sq in inv.classes and inv.classes[sq].get('unit') == c.get('unit') and inv.classes[sq]['shape'] == 1
            obs.append({'id': '%s::Magnitude() [%s]' % (q, ct), 'kind': 'magnitude', 'n': n, 'ref': magk, 'scalar': sq, 'unit_ok': bool(unit_ok),
                        'w': W('qm_' + tag, n, 1, '%s const auto m = q.Magnitude(); static_assert(std::is_same<std::decay_t<decltype(m)>, %s>::value, "type"); static_assert(sizeof(m) == sizeof(%s), "layout"); phqv::put(out, m);' % (
                            get, cxx(sq, T) if sq else ct, ct))})
            # recomposition
            cm = [m for m in c['members'] if m['kind'] == 'ctor' and m['access'] == 'public' and len(m['params']) == 2 and
                  INV.qname(m['params'][0]['type']) == sq and INV.qname(m['params'][1]['type']) == dname]
            if cm and dname in meths:
                obs.append({'id': '%s(scalar, direction) [%s]' % (q, ct), 'kind': 'scaled', 'n': n,
                            'w': W('qs_' + tag, 1 + n, n, 'const auto s = phqv::get<%s>(in); const auto d = phqv::get<PhQ::%s<%s>>(in+1); phqv::put(out, %s(s, d));' % (cxx(sq, T), dname, ct, QT))})
                obs.append({'id': '%s(q.Magnitude(), q.%s()) [%s]' % (q, dname, ct), 'kind': 'recompose', 'n': n,
                            'w': W('qr_' + tag, n, n, '%s phqv::put(out, %s(q.Magnitude(), q.%s()));' % (get, QT, dname))})
        for i, a in enumerate('xyz'[:n]):
            if a in meths:
                obs.append({'id': '%s::%s() [%s]' % (q, a, ct), 'kind': 'component', 'n': n, 'i': i,
                            'w': W('qc_%s_%s' % (tag, a), n, 1, '%s const auto v = q.%s(); static_assert(sizeof(v) == sizeof(%s), "layout"); phqv::put(out, v);' % (get, a, ct))})
    return ws, obs


def worker(ctx):
    T = ctx.spec.payload['T']
    for d in ctx.spec.payload['obs']:
        engine.guarded(ctx, d['id'], lambda d=d: one(ctx, T, d))


def norm_spec(i, n):
    def f(A, x):
        s = x[0] * x[0]
        for j in range(1, n):
            s = s + x[j] * x[j]
        return x[i] / A.sqrt(s)
    return f


def nonzero(n):
    def f(A, x):
        return [z3.Or(*[x[j] != 0 for j in range(n)])]
    return f


def strip_zero_branch(t):
    """replace every select whose one arm is the constant +0 (the zero-vector branch) by its other arm"""
    m = {}
    for x in tm.walk(t):
        if x.op == 'select':
            c, a, b = x.args
            za = a.op == 'fc' and a.args[0] in (0, '-0')
            zb = b.op == 'fc' and b.args[0] in (0, '-0')
            if za and not zb:
                m[x.id] = b
            elif zb and not za:
                m[x.id] = a
    return tm.replace_nodes(t, m) if m else t


def one(ctx, T, d):
    w = ctx.byname[d['w']]
    res = ctx.result(d['w'])
    n = d['n']
    xs = [tm.arg(T, 'x%d' % i) for i in range(w.n_in)]
    if res is None or res.error:
        o = ctx.ob(d['id'], d['kind'], 'BIT', d['id'])
        o.reason = ctx.why_missing(d['w'])
        return
    k = d['kind']
    if k == 'kernel':
        for i in range(n):
            o1 = ctx.ob('%s component %d [identity]' % (d['id'], i), 'normalisation-identity', 'REAL', '%s component %d: equals x_i / sqrt(sum x_j^2) for every non-zero input' % (d['id'], i))
            ctx.round_bound(o1, res.out[i], norm_spec(i, n), w, 0, positive=False, mode='REAL', out_index=i, assume=nonzero(n))
            o2 = ctx.ob('%s component %d [rounding]' % (d['id'], i), 'normalisation-rounding', 'ROUND', '%s component %d: within %d * 2^-p relative of x_i / |x| (non-zero branch)' % (d['id'], i, KC))
            br = strip_zero_branch(res.out[i])
            ctx.round_bound(o2, br, norm_spec(i, n), w, KC, positive=False, mode='ROUND', out_index=i, assume=nonzero(n))
        o3 = ctx.ob('%s [unit length]' % d['id'], 'unit-length-lemma', 'ROUND', '%s: components each within %d * 2^-p relative of x_i/|x| have Euclidean length within 4 ulps (8 * 2^-p) of one' % (d['id'], KC))
        o3.key = o3.oid
        u = z3.RealVal('1/%d' % (1 << tm.FPREC[T]))
        x = [z3.Real('x%d' % i) for i in range(n)]
        th = [z3.Real('t%d' % i) for i in range(n)]
        S = sum(xi * xi for xi in x)
        L2 = sum(xi * xi * (1 + ti) * (1 + ti) for xi, ti in zip(x, th))
        cons = [z3.Or(*[xi != 0 for xi in x])] + [z3.And(ti <= KC * u, ti >= -KC * u) for ti in th] + \
            [z3.Or(L2 > (1 + 8 * u) * (1 + 8 * u) * S, L2 < (1 - 8 * u) * (1 - 8 * u) * S)]
        ctx.decide(o3, cons, w, None, grid=False)
        o4 = ctx.ob('%s [zero vector]' % d['id'], 'zero-direction', 'BIT', '%s: a zero input vector (either sign of zero) gives exactly +0 in every component' % d['id'])
        o4.key = o4.oid
        it = modes.Bit()
        S_ = modes.FSORT[T]
        zin = [z3.fpIsZero(z3.FP('x%d' % i, S_)) for i in range(n)]
        ctx.decide(o4, zin + [z3.Or(*[modes.smt_ne(it.ev(t), z3.fpPlusZero(S_)) for t in res.out])], w, None, grid=False)
        return
    if k in ('path', 'pathx', 'pathref'):
        kr = ctx.result(d['kern'])
        o = ctx.ob(d['id'], 'construction-path', 'BIT', '%s: bit-identical to the normalisation kernel applied to the given components' % d['id'])
        if kr is None or kr.error:
            o.reason = 'kernel: ' + ctx.why_missing(d['kern'])
            return
        if k == 'path':
            exp = kr.out
        elif k == 'pathx':
            exp = [tm.substitute(t, {'x%d' % j: (xs[a] if a is not None else tm.fc(T, 0)) for j, a in enumerate(d['args'])}) for t in kr.out]
        else:
            rr = ctx.result(d['ref'])
            if rr is None or rr.error:
                o.reason = 'reference: ' + ctx.why_missing(d['ref'])
                return
            exp = [tm.substitute(t, {'x%d' % j: rr.out[j] for j in range(3)}) for t in kr.out]
        ctx.bit_equal(o, res.out, exp, w, key=o.oid, replay=ctx.native_term_replay(w, exp))
        return
    if k == 'embed':
        o = ctx.ob(d['id'], 'construction-path', 'BIT', '%s: the planar components are kept and z is +0' % d['id'])
        exp = [xs[0], xs[1], tm.fc(T, 0)]
        ctx.bit_equal(o, res.out, exp, w, key=o.oid, replay=ctx.native_term_replay(w, exp))
        return
    if k == 'magnitude':
        o = ctx.ob(d['id'], 'quantity-magnitude', 'BIT', '%s: has the scalar quantity type of the same unit (%s) and the Euclidean norm of the components as value' % (d['id'], d['scalar']))
        rr = ctx.result(d['ref'])
        if rr is None or rr.error:
            o.reason = 'reference: ' + ctx.why_missing(d['ref'])
            return
        if not d['unit_ok']:
            o.verdict = 'violated'
            o.key = o.oid
            o.reason = 'Magnitude() returns %s, which is not a scalar quantity of the same unit type' % d['scalar']
            o.replay = core.write_replay(PROP, o.oid, {'kind': 'ground', 'property': PROP, 'obligation': o.oid, 'statement': o.desc, 'observed': o.reason, 'includes': [], 'wrappers': [], 'impl': None, 'inputs': []})
            return
        ctx.bit_equal(o, res.out, rr.out, w, key=o.oid, replay=ctx.native_pair_replay(w, ctx.byname[d['ref']]))
        return
    if k == 'component':
        o = ctx.ob(d['id'], 'quantity-component', 'BIT', '%s: returns the matching stored component' % d['id'])
        ctx.bit_equal(o, res.out, [xs[d['i']]], w, key=o.oid, replay=ctx.native_term_replay(w, [xs[d['i']]]))
        return
    if k == 'scaled':
        o = ctx.ob(d['id'], 'quantity-from-magnitude', 'BIT', '%s: component i is s * d_i' % d['id'])
        exp = [mk('fmul', T, xs[0], xs[1 + i]) for i in range(n)]
        ctx.bit_equal(o, res.out, exp, w, key=o.oid, replay=ctx.native_term_replay(w, exp))
        return
    if k == 'recompose':
        for i in range(n):
            o1 = ctx.ob('%s component %d [identity]' % (d['id'], i), 'recompose-identity', 'REAL', '%s component %d: magnitude times direction is the original component (non-zero vector)' % (d['id'], i))
            ctx.round_bound(o1, res.out[i], (lambda A, x, i=i: x[i]), w, 0, positive=False, mode='REAL', out_index=i, assume=nonzero(n))
            o2 = ctx.ob('%s component %d [rounding]' % (d['id'], i), 'recompose-rounding', 'ROUND', '%s component %d: within 16 ulps of the original component' % (d['id'], i))
            br = strip_zero_branch(res.out[i])
            ctx.round_bound(o2, br, (lambda A, x, i=i: x[i]), w, 16, positive=False, mode='ROUND', out_index=i, assume=nonzero(n))


def main():
    rep = core.Report(PROP)
    work, inv = C.setup(PROP)
    incs = C.all_includes(work)
    types = C.numeric_types()
    specs = []
    total = 0
    for T in types:
        ws, obs = generate(inv, T)
        obs = C.filter_obs(obs)
        total += len(obs)
        byw = {w.name: w for w in ws}
        for ci, part in enumerate(engine.chunk(obs, 5)):
            names = []
            for d in part:
                for key in ('w', 'kern', 'ref'):
                    if d.get(key) and d[key] not in names:
                        names.append(d[key])
            specs.append(engine.UnitSpec('c10_%s_%d' % (T, ci), incs, [byw[x] for x in names], {'T': T, 'obs': part, 'prop': PROP}))
    # no public member stores an un-normalised vector: inventory fact
    for dn in ('Direction', 'PlanarDirection'):
        c = inv.classes.get(dn)
        if c:
            bad = [m['name'] for m in c['members'] if m['kind'] == 'method' and m['access'] == 'public' and
                   (m['name'].startswith('Mutable') or m['name'] in ('SetValue', 'MutableValue'))]
            b = inv.classes.get(c['base'].split('<')[0], {'members': []})
            bad += [m['name'] for m in b['members'] if m['kind'] == 'method' and m['access'] == 'public' and
                    (m['name'].startswith('Mutable') or m['name'] in ('SetValue', 'MutableValue'))]
            rep.add(core.ground_ob(PROP, '%s has no raw mutator' % dn, 'no-bypass', '%s and its base declare no public member that writes the stored vector without normalising (no SetValue / MutableValue / Mutable_*)' % dn,
                                   not bad, 'public raw mutators: %s' % bad))
    results = engine.run_units(specs, worker, work)
    engine.collect(rep, results)
    rep.bounds = {'numeric_types': types, 'entry_points': total, 'inputs': 'all real vectors (non-zero for the identities; the zero vector bit-precisely)'}
    rep.assumptions = ['standard model of rounding; x^2+y^2+z^2 neither overflows nor underflows, as the property states',
                       'exact invariance under power-of-two rescaling is NOT decided (bit-precise scaling invariance of mul/sqrt/div is out of reach of the FP solvers here): the REAL degree-0 homogeneity and the 4-ulp unit-length bound are',
                       'Magnitude()\'s result type is a compile-time fact pinned by static_assert in the generated wrapper']
    rep.explanation = 'normalisation kernels against x/|x| over the reals and under the rounding model; every construction path and every vector quantity\'s Direction()/Magnitude()/components bit-identical to those kernels; recomposition within 16 ulps'
    return rep.finish()


if __name__ == '__main__':
    sys.exit(main())
