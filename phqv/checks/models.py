"""shared machinery of C12 (elastic isotropic solid) and C13 (Newtonian fluids): the linear constitutive maps"""
import z3
from fractions import Fraction as F
from .. import harness as H, core, engine, terms as tm, modes
from ..terms import mk
from .common import CT

NS = 'PhQ::ConstitutiveModel::'
MODELS = {
    # class: (parameter quantity types, forward argument quantity, forward result, inverse name, strain-like quantity ignored)
    'ElasticIsotropicSolid': (['ShearModulus', 'LameFirstModulus'], 'Strain', 'Stress', 'Strain', 'StrainRate'),
    'CompressibleNewtonianFluid': (['DynamicViscosity', 'BulkDynamicViscosity'], 'StrainRate', 'Stress', 'StrainRate', 'Strain'),
    'IncompressibleNewtonianFluid': (['DynamicViscosity'], 'StrainRate', 'Stress', 'StrainRate', 'Strain'),
}
DIAG = [1, 0, 0, 1, 0, 1]


def make_model(cls, M, npar):
    pars, *_ = MODELS[cls]
    lines = []
    for i, q in enumerate(pars[:npar]):
        lines.append('const %s m%d = static_cast<%s>(in[%d]);' % (CT[M], i, CT[M], i))
    args = ', '.join('phqv::get<PhQ::%s<%s>>(&m%d)' % (q, CT[M], i) for i, q in enumerate(pars[:npar]))
    lines.append('const %s%s<%s> model(%s);' % (NS, cls, CT[M], args))
    return lines


def map_wrappers(cls, M, A):
    """wrappers for one model class at model type M and argument type A"""
    pars, fwd_arg, fwd_res, inv_name, other = MODELS[cls]
    np_ = len(pars)
    a = CT[A]
    tag = '%s_%s_%s' % (cls[:4], M, A)
    ws, obs = [], []

    def W(name, nin, nout, body):
        w = H.Wrapper('w_%s_%s' % (name, tag), A, nin, A, nout, '\n'.join(make_model(cls, M, np_) + body))
        ws.append(w)
        return w.name
    t_in = 'const auto t = phqv::get<PhQ::%s<%s>>(in+%d);' % (fwd_arg, a, np_)
    s_in = 'const auto s = phqv::get<PhQ::%s<%s>>(in+%d);' % (fwd_res, a, np_)
    base = {'cls': cls, 'M': M, 'A': A, 'np': np_}
    ident = '%s<%s>, %s argument' % (cls, CT[M], a)
    f = W('fwd', np_ + 6, 6, [t_in, 'phqv::put(out, model.Stress(t));'])
    obs.append(dict(base, id='%s: Stress(%s)' % (ident, fwd_arg), kind='forward', w=f))
    fv = W('fwdv', np_ + 6, 6, [t_in, 'const PhQ::ConstitutiveModel& b = model; phqv::put(out, b.Stress(t));'])
    obs.append(dict(base, id='%s: Stress(%s) through the abstract interface' % (ident, fwd_arg), kind='same', w=fv, ref=f))
    i_ = W('inv', np_ + 6, 6, [s_in, 'phqv::put(out, model.%s(s));' % inv_name])
    obs.append(dict(base, id='%s: %s(Stress)' % (ident, inv_name), kind='inverse', w=i_))
    iv = W('invv', np_ + 6, 6, [s_in, 'const PhQ::ConstitutiveModel& b = model; phqv::put(out, b.%s(s));' % inv_name])
    obs.append(dict(base, id='%s: %s(Stress) through the abstract interface' % (ident, inv_name), kind='same', w=iv, ref=i_))
    rt = W('rt', np_ + 6, 6, [t_in, 'phqv::put(out, model.%s(model.Stress(t)));' % inv_name])
    obs.append(dict(base, id='%s: %s(Stress(%s))' % (ident, inv_name, fwd_arg), kind='roundtrip', w=rt))
    # copies: a copy-constructed model, and a model first built from other parameters and then assigned to, are the same
    # model (a cached coefficient that the copy operations forget to carry over shows here)
    opars = ['m1', 'm0'] if np_ == 2 else ['(m0 + m0)']
    oargs = ', '.join('phqv::get<PhQ::%s<%s>>(&o%d)' % (q, CT[M], j) for j, q in enumerate(pars[:np_]))
    odecl = ['const %s o%d = %s;' % (CT[M], j, v) for j, v in enumerate(opars)]
    cp = W('copy', np_ + 6, 6, [t_in, 'const %s%s<%s> copy(model);' % (NS, cls, CT[M]), 'phqv::put(out, copy.Stress(t));'])
    obs.append(dict(base, id='%s: Stress(%s) of a copy-constructed model' % (ident, fwd_arg), kind='same', w=cp, ref=f))
    asg = W('assign', np_ + 6, 6, [s_in] + odecl + ['%s%s<%s> other(%s);' % (NS, cls, CT[M], oargs), 'other = model;', 'phqv::put(out, other.%s(s));' % inv_name])
    obs.append(dict(base, id='%s: %s(Stress) of a model assigned over one built from other parameters' % (ident, inv_name), kind='same', w=asg, ref=i_))
    asf = W('assignf', np_ + 6, 6, [t_in] + odecl + ['%s%s<%s> other(%s);' % (NS, cls, CT[M], oargs), 'other = model;', 'phqv::put(out, other.Stress(t));'])
    obs.append(dict(base, id='%s: Stress(%s) of a model assigned over one built from other parameters' % (ident, fwd_arg), kind='same', w=asf, ref=f))
    # the argument the model does not depend on
    o_in = 'const auto o = phqv::get<PhQ::%s<%s>>(in+%d);' % (other, a, np_ + 6)
    two = W('two', np_ + 12, 6, [t_in, o_in, 'phqv::put(out, model.Stress(%s));' % ('t, o' if fwd_arg == 'Strain' else 'o, t')])
    obs.append(dict(base, id='%s: Stress(strain, strain_rate) ignores the %s' % (ident, other), kind='same', w=two, ref=f))
    oz = 'const auto o = phqv::get<PhQ::%s<%s>>(in+%d);' % (other, a, np_)
    z1 = W('z1', np_ + 6, 6, [oz, 'phqv::put(out, model.Stress(o));'])
    obs.append(dict(base, id='%s: Stress(%s) is zero' % (ident, other), kind='zero', w=z1))
    z2 = W('z2', np_ + 6, 6, [s_in, 'phqv::put(out, model.%s(s));' % other])
    obs.append(dict(base, id='%s: %s(Stress) is zero' % (ident, other), kind='zero', w=z2))
    return ws, obs


def coeffs(d, A, x):
    """(mu, second coefficient) of the model from the inputs"""
    mu = x[0]
    lam = x[1] if d['np'] == 2 else A.const(0)
    return mu, lam


def fwd_spec(d, i):
    def f(A, x):
        mu, lam = coeffs(d, A, x)
        t = x[d['np']:d['np'] + 6]
        tr = t[0] + t[3] + t[5]
        return 2 * mu * t[i] + (lam * tr if DIAG[i] else A.const(0))
    return f


def inv_spec(d, i):
    def f(A, x):
        mu, lam = coeffs(d, A, x)
        s = x[d['np']:d['np'] + 6]
        tr = s[0] + s[3] + s[5]
        a = 1 / (2 * mu)
        b = -lam / (2 * mu * (2 * mu + 3 * lam))
        return a * s[i] + (b * tr if DIAG[i] else A.const(0))
    return f


def map_mag(d, i, inverse):
    def f(A, x):
        mu, lam = coeffs(d, A, x)
        t = [A.abs(v) for v in x[d['np']:d['np'] + 6]]
        tr = t[0] + t[3] + t[5]
        if inverse:
            return t[i] / (2 * mu) + (lam * tr / (2 * mu * (2 * mu + 3 * lam)) if DIAG[i] else A.const(0))
        return 2 * mu * t[i] + (lam * tr if DIAG[i] else A.const(0))
    return f


def assume_material(d):
    def f(A, x):
        c = [x[0] > 0]
        if d['np'] == 2:
            c.append(x[1] >= 0)
        return c
    return f


def signs(d):
    s = {'x0': '+'}
    if d['np'] == 2:
        s['x1'] = '+'
    return s


def check_map(ctx, d, Kf=4, Kc=16):
    T = d['A']
    w = ctx.byname[d['w']]
    res = ctx.result(d['w'])
    k = d['kind']
    if res is None or res.error:
        o = ctx.ob(d['id'], 'model-' + k, 'BIT', d['id'])
        o.reason = ctx.why_missing(d['w'])
        return
    if k == 'same':
        o = ctx.ob(d['id'], 'model-same-function', 'BIT', '%s: bit-identical to the direct call' % d['id'])
        rr = ctx.result(d['ref'])
        if rr is None or rr.error:
            o.reason = ctx.why_missing(d['ref'])
            return
        ctx.bit_equal(o, res.out, rr.out, w, key=o.oid, replay=ctx.native_pair_replay(w, ctx.byname[d['ref']]) if w.n_in == ctx.byname[d['ref']].n_in else None)
        return
    if k == 'zero':
        o = ctx.ob(d['id'], 'model-zero', 'BIT', '%s: every component is +0 whatever the argument' % d['id'])
        exp = [tm.fc(T, 0)] * 6
        ctx.bit_equal(o, res.out, exp, w, key=o.oid, replay=ctx.native_term_replay(w, exp))
        return
    for i in range(6):
        spec = {'forward': fwd_spec, 'inverse': inv_spec}.get(k)
        sp = spec(d, i) if spec else (lambda A, x, i=i: x[d['np'] + i])
        what = {'forward': '2 mu t + lambda tr(t) I', 'inverse': 't / (2 mu) - lambda tr(t) I / (2 mu (2 mu + 3 lambda))', 'roundtrip': 'the original tensor'}[k]
        o1 = ctx.ob('%s component %d [formula]' % (d['id'], i), 'model-%s-formula' % k, 'REAL', '%s component %d equals %s over the reals (mu > 0, lambda >= 0)' % (d['id'], i, what))
        o2 = ctx.ob('%s component %d [accuracy]' % (d['id'], i), 'model-%s-accuracy' % k, 'ROUND', '%s component %d: rounding error at most %d * 2^-p of the propagated magnitude' % (d['id'], i, Kc))
        if k == 'roundtrip':
            ctx.round_bound(o1, engine.lift_input_casts(res.out[i], d['M']), sp, w, 0, positive=False, mode='REAL', out_index=i, assume=assume_material(d))
            ctx.out['obs'].remove(o2)
            continue
        ctx.formula_bound(o1, o2, res.out[i], sp, w, Kf, Kc, signs=signs(d), assume=assume_material(d), out_index=i, lift_ty=d['M'], mag=map_mag(d, i, k == 'inverse'))
