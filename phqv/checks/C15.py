"""C15 - printing is lossless and canonical; serialisations are well-formed.

cascade   PhQ::Print<float|double|long double> executed symbolically (std::ostringstream summarised as an event trace).
          BIT, for every finite bit pattern x of the type:  with RU(10^k) the smallest value of the type >= 10^k,
             RU(10^k) <= |x| < RU(10^(k+1)), -3 <= k <= 3   ==>  inserted with std::fixed, precision max_digits10 - k
             0 < |x| < RU(10^-3)  or  |x| >= 10^4            ==>  std::scientific, precision max_digits10
             x = +-0                                          ==>  the integer 0 is inserted
          which by the C definition of %f / %e is "exactly max_digits10 + 1 significant digits".
composite Print / JSON / XML / YAML (with and without a unit) and operator<< of every quantity, of the four vector/tensor
          classes and of the three constitutive models, executed symbolically with PhQ::Print<T> kept as an
          uninterpreted piece: the output consists of literal text, exactly one number piece per stored component in
          declared order (each the C02 conversion of that component, printed in the quantity's own numeric type) and
          the unit's abbreviation; operator<< emits exactly Print(); the JSON form parses as JSON once every number
          piece is replaced by a JSON number.
Not decided here (declared): that parsing the printed text returns the same bits - digit generation (glibc) and
strtof/strtod/strtold are outside what can be encoded; it follows from max_digits10 + 1 >= max_digits10 digits by the
round-trip theorem for correctly rounded conversions (environment contract).
"""
import sys, json, re
from fractions import Fraction as F
import z3
import numpy as np
from .. import harness as H, inventory as INV, core, engine, terms as tm, modes
from ..irsym import summaries as SM, strings as SS
from . import common as C, unitdata
from .common import CT, cxx, sanitize

PROP = 'C15'
MD10 = {'f32': 9, 'f64': 17, 'f80': 21}
EXTRA = 'extern "C" void phqv_emit(const std::string&);\n'
FORMS = ['Print', 'JSON', 'XML', 'YAML']


def generate(inv, tb, T):
    ws, obs = [], []
    ct = CT[T]
    w = H.Wrapper('w_print_%s' % T, T, 1, T, 0, 'phqv_emit(PhQ::Print(in[0]));', flatten=False)
    ws.append(w)
    obs.append({'id': 'PhQ::Print<%s>' % ct, 'kind': 'cascade', 'w': w.name, 'T': T, 'unsummarised': True})
    names = inv.quantity_names() + [m for m in ('PlanarVector', 'Vector', 'SymmetricDyad', 'Dyad') if m in inv.classes]
    for q in names:
        c = inv.classes[q]
        n = c['shape']
        QT = cxx(q, T)
        unit = c.get('unit')
        get = 'const auto q = phqv::get<%s>(in);' % QT
        e = tb.get('Unit::' + unit.replace('Unit::', '')) if unit else None
        forms = []
        for f in FORMS:
            forms.append((f, None))
            if e:
                forms.append((f, 'u'))
        for f, u in forms:
            uexpr = ''
            uk = None
            if u:
                nm = {v: k for k, v in e['enumerators'].items()}
                ns = [k for k in sorted(nm) if k != e['standard']]
                if not ns:
                    continue
                uk = ns[-1]
                uexpr = 'PhQ::%s::%s' % ('Unit::' + unit.replace('Unit::', ''), nm[uk])
            wn = 'w_s_%s_%s_%s%s' % (sanitize(q), T, f, '_u' if u else '')
            ws.append(H.Wrapper(wn, T, n, T, 0, '%s phqv_emit(q.%s(%s));' % (get, f, uexpr), flatten=False))
            obs.append({'id': '%s::%s(%s) [%s]' % (q, f, 'unit' if u else '', ct), 'kind': 'composite', 'w': wn, 'T': T, 'n': n, 'form': f,
                        'unit_type': ('Unit::' + unit.replace('Unit::', '')) if unit else None, 'unit': uk,
                        'abbr': (dict((k, a) for k, a in e['abbreviations']).get(uk if u else e['standard']) if e else None)})
        wn = 'w_s_%s_%s_stream' % (sanitize(q), T)
        ws.append(H.Wrapper(wn, T, n, T, 0, '%s std::ostringstream os; { using namespace PhQ; os << q; } phqv_emit(os.str());' % get, flatten=False))
        obs.append({'id': 'operator<<(%s) [%s]' % (q, ct), 'kind': 'stream', 'w': wn, 'T': T, 'ref': 'w_s_%s_%s_Print' % (sanitize(q), T)})
    return ws, obs


def worker(ctx):
    for d in ctx.spec.payload['obs']:
        engine.guarded(ctx, d['id'], lambda d=d: one(ctx, d))


def setup_summaries(ctx, summarise_print):
    sm = SM.containers()
    sm.update(SM.heap())
    SS.install(sm, ctx.unit.mod, summarise_print=summarise_print)
    ctx.summaries = sm
    ctx.init_tables = 'all'


def emitted(p):
    em = [e for e in p.events if e[0] == 'emit']
    return em[-1][1] if em else None


def ru(q, T):
    """smallest value of type T that is >= the rational q"""
    r = core.rnd_frac(q, T)
    if r >= q:
        return r
    # next representable above r
    p = tm.FPREC[T]
    e = r.numerator.bit_length() - r.denominator.bit_length()
    if F(2) ** e > r:
        e -= 1
    return r + F(2) ** (e - p + 1)


def cascade(ctx, d):
    T = d['T']
    w = ctx.byname[d['w']]
    setup_summaries(ctx, False)
    ctx.results.pop(d['w'], None)
    res = ctx.result(d['w'])
    o = ctx.ob(d['id'], 'print-cascade', 'BIT', '%s: for every finite bit pattern the notation and precision are those of max_digits10 + 1 = %d significant digits (fixed for 0.001 <= |x| < 10000, scientific otherwise, integer 0 for zeros)' % (d['id'], MD10[T] + 1))
    o.key = o.oid
    if res is None or res.error:
        o.reason = ctx.why_missing(d['w'])
        return
    S_ = modes.FSORT[T]
    x = z3.FP('x0', S_)
    ax = z3.fpAbs(x)
    md = MD10[T]

    def code(notation, prec):
        return {'fixed': 1000, 'scientific': 2000}[notation] + prec
    spec = z3.IntVal(code('scientific', md))
    for k in range(3, -4, -1):
        lo = modes.fp_const(T, ru(F(10) ** k, T))
        hi = modes.fp_const(T, ru(F(10) ** (k + 1), T))
        spec = z3.If(z3.And(z3.fpGEQ(ax, lo), z3.fpLT(ax, hi)), z3.IntVal(code('fixed', md - k)), spec)
    spec = z3.If(z3.fpIsZero(x), z3.IntVal(0), spec)
    it = modes.Bit()
    bad = []
    for p in res.paths:
        pcz = [it.ev(c) for c in p.pc]
        ins = [e for e in p.events if e[0] in ('insert', 'insert-int')]
        if p.status != 'ret' or p.ub or len(ins) != 1:
            bad.append(z3.And(*pcz) if pcz else z3.BoolVal(True))
            continue
        e = ins[0]
        if e[0] == 'insert-int':
            c = z3.IntVal(0) if tm.is_ic(e[1]) and e[1].args[0] == 0 else z3.IntVal(-1)
        else:
            _, notation, prec, ty, val = e
            if ty != T or val is not tm.arg(T, 'x0') or notation not in ('fixed', 'scientific') or not tm.is_ic(prec):
                c = z3.IntVal(-1)
            else:
                c = z3.IntVal(code(notation, tm.sval(prec)))
        bad.append(z3.And(*(pcz + [c != spec])))
    o.desc += ' [%d paths]' % len(res.paths)
    ctx.decide(o, [z3.Not(z3.fpIsNaN(x)), z3.Not(z3.fpIsInf(x)), z3.Or(*bad)], w, cascade_replay(ctx, d, T), grid=False)
    if o.verdict != 'discharged' and o.verdict != 'violated':
        # realisation search: the solver's witness did not reproduce (typically the cascade's decision goes through a libm
        # function, which is uninterpreted, so the model's x is arbitrary).  The specification only changes value at the
        # powers of ten 10^-3..10^4, so a disagreement with it that is realisable at all is realisable next to one of them:
        # replay the representable neighbours (+-8 ulps, both signs) of each threshold against the natively built code.
        rp = cascade_replay(ctx, d, T)
        npt = H.NPT[T]
        tried = 0
        for k in range(-4, 6):
            c = modes.frac_to_np(T, ru(F(10) ** k, T))
            pts = [c]
            lo = hi = c
            for _ in range(8):
                lo = np.nextafter(lo, npt(0)); hi = np.nextafter(hi, npt(np.inf))
                pts += [lo, hi]
            for v in pts:
                for sgn in (1, -1):
                    xv = npt(sgn) * v
                    tried += 1
                    try:
                        rep_, text = rp([xv])
                    except Exception as e:
                        rep_, text = False, str(e)
                    if rep_:
                        o.verdict = 'violated'
                        o.reason = text + ' (found by the threshold-neighbour realisation search after: %s)' % (o.reason or '')[:80]
                        o.model = [core.hexf(xv)]
                        o.replay = ctx.save_case(o, [xv], getattr(rp, 'case', {}), [])
                        return
        o.reason = (o.reason or '') + ' [threshold-neighbour realisation search: %d points, none reproduces]' % tried


def cascade_replay(ctx, d, T):
    def rp(xs):
        x = xs[0]
        s = native_print(ctx, T, x)
        if s is None:
            return False, 'native Print unavailable'
        digits, notation = count_digits(s)
        ax = abs(core.np_to_frac(x))
        exp_not = 'fixed' if F(1, 1000) <= ax < 10000 else 'scientific'
        ok = (ax == 0 and s in ('0', '-0')) or (digits == MD10[T] + 1 and notation == exp_not)
        rp.case['expected_note'] = 'PhQ::Print(%s) = %s' % (core.hexf(x), s)
        if ok and ax != 0:
            # a replayed candidate is also parsed back (the environment's strtof/strtod/strtold): lossless means same number
            try:
                back = H.NPT[T](s)
            except Exception:
                back = None
            if back is None or not (back == x):
                return True, 'PhQ::Print(%s) = "%s" parses back to %s, a different number' % (core.hexf(x), s, core.hexf(back) if back is not None else 'nothing')
        return (not ok), 'PhQ::Print(%s) = "%s": %d significant digits, %s notation; required %d digits, %s' % (core.hexf(x), s, digits, notation, MD10[T] + 1, exp_not)
    rp.case = {'kind': 'observed', 'impl': d['w']}
    return rp


_native = {}


def native_print(ctx, T, x):
    """PhQ::Print natively (g++), through a tiny helper library built once per process"""
    import ctypes, os
    if 'lib' not in _native:
        src = os.path.join(ctx.unit.work, 'native_print.cpp')
        so = os.path.join(ctx.unit.work, 'native_print_%d.so' % os.getpid())
        open(src, 'w').write('#include "PhQ/Base.hpp"\n#include <cstring>\n' + ''.join(
            'extern "C" void np_%s(const %s* v, char* out) { std::string s = PhQ::Print(*v); std::strcpy(out, s.c_str()); }\n' % (t, CT[t]) for t in C.TYPES))
        rc, out, err = H.run_cmd(['g++', '-std=c++17', '-O0', '-fPIC', '-shared', '-w', '-I', os.path.join(H.REPO, 'include'), src, '-o', so])
        _native['lib'] = ctypes.CDLL(so) if rc == 0 else None
    lib = _native['lib']
    if lib is None:
        return None
    a = np.zeros(1, dtype=H.NPT[T])
    a[0] = x
    buf = ctypes.create_string_buffer(256)
    getattr(lib, 'np_' + T)(ctypes.c_void_p(a.ctypes.data), buf)
    return buf.value.decode()


def count_digits(s):
    t = s.lstrip('-')
    if 'e' in t or 'E' in t:
        m = re.split('[eE]', t)[0]
        return len(m.replace('.', '')), 'scientific'
    d = t.replace('.', '').lstrip('0')
    return len(d), 'fixed'


def one(ctx, d):
    if d['kind'] == 'cascade':
        return cascade(ctx, d)
    if ctx.summaries is None or not getattr(ctx, '_sp', False):
        setup_summaries(ctx, True)
        ctx._sp = True
    T = d['T']
    w = ctx.byname[d['w']]
    res = ctx.result(d['w'])
    if d['kind'] == 'stream':
        o = ctx.ob(d['id'], 'stream-equals-print', 'STR', '%s emits exactly Print()' % d['id'])
        o.key = o.oid
        rr = ctx.result(d['ref']) if d['ref'] in ctx.byname else None
        if res is None or res.error or rr is None or rr.error or len(res.paths) != 1 or len(rr.paths) != 1:
            o.reason = ctx.why_missing(d['w'])
            return
        a, b = emitted(res.paths[0]), emitted(rr.paths[0])
        decide_pieces(ctx, o, w, a, b, 'streamed %r, Print() gives %r' % (SS.render(a or ()), SS.render(b or ())))
        return
    o = ctx.ob(d['id'], 'composite-form', 'STR', '%s: literal text, one number piece per stored component in declared order (converted to the unit, printed in the own numeric type), and the unit abbreviation' % d['id'])
    o.key = o.oid
    if res is None or res.error or len(res.paths) != 1 or res.paths[0].status != 'ret' or res.paths[0].ub:
        o.reason = ctx.why_missing(d['w']) if (res is None or res.error) else 'unexpected paths %s' % [(p.status, p.ub[:1]) for p in res.paths][:2]
        return
    pieces = emitted(res.paths[0]) or ()
    nums = [x for x in pieces if not isinstance(x, bytes)]
    text = b''.join(x for x in pieces if isinstance(x, bytes)).decode('utf-8', 'replace')
    xs = [tm.arg(T, 'x%d' % i) for i in range(d['n'])]
    problems = []
    if len(nums) != d['n']:
        problems.append('%d number pieces for %d components' % (len(nums), d['n']))
    else:
        for i, (pc_, x) in enumerate(zip(nums, xs)):
            if pc_[0] != 'print' or pc_[1] != T:
                problems.append('component %d is printed as %s, not PhQ::Print<%s>' % (i, pc_[:2], CT[T]))
                continue
            exp = expected_component(ctx, d, x, T)
            if exp is None:
                problems.append('no reference conversion leg')
            elif pc_[2] is not exp:
                it = modes.Bit()
                v, _, secs, _ = core.solve([modes.smt_ne(it.ev(pc_[2]), it.ev(exp))], ctx.timeout)
                o.secs += secs
                if v != 'unsat':
                    problems.append('number piece %d is %s, expected %s' % (i, tm.show(pc_[2], 4), tm.show(exp, 4)))
    if d['abbr'] is not None and text.count(d['abbr']) < 1:
        problems.append('the abbreviation %r does not occur in %r' % (d['abbr'], text))
    if d['form'] == 'JSON':
        js = ''.join(x.decode('utf-8', 'replace') if isinstance(x, bytes) else '1.5' for x in pieces)
        try:
            json.loads(js)
        except ValueError as e:
            problems.append('not valid JSON: %s (%r)' % (e, js[:80]))
    decide_pieces(ctx, o, w, (), (), '; '.join(problems[:3]), forced=bool(problems))
    o.desc += ' [%s]' % SS.render(pieces)[:120]


_legs = {}


def expected_component(ctx, d, x, T):
    if d['unit'] is None or d['unit_type'] is None:
        return x
    # reference: the scalar static leg from-standard of that unit, from a wrapper in this module
    nm = 'w_leg_%s_%d_%s' % (sanitize(d['unit_type']), d['unit'], T)
    if nm not in ctx.byname:
        return None
    r = ctx.result(nm)
    if r is None or r.error or r.out[0] is None:
        return None
    return tm.substitute(r.out[0], {'x0': x})


def decide_pieces(ctx, o, w, a, b, detail, forced=None):
    """piece sequences are equal iff their z3 sequence encodings are (uninterpreted Print / to_string); the solver
    query is trivial by construction and posed for uniformity of the evidence"""
    bad = forced if forced is not None else (SS.norm(a or ()) != SS.norm(b or ()))
    s1 = z3.StringVal(SS.render(a or ())) if a is not None else z3.StringVal('')
    s2 = z3.StringVal(SS.render(b or ())) if b is not None else z3.StringVal('')
    v, _, secs, smt = core.solve([s1 != s2] if forced is None else [z3.BoolVal(bool(forced))], 5000, want_smt=False)
    o.secs += secs
    o.syntactic = True
    if bad:
        o.verdict = 'violated'
        o.reason = detail
        o.replay = core.write_replay(PROP, o.oid, {'kind': 'ground', 'property': PROP, 'obligation': o.oid, 'statement': o.desc, 'observed': detail,
                                                  'includes': [], 'wrappers': [], 'impl': None, 'inputs': []})
    else:
        o.verdict = 'discharged'


def main():
    rep = core.Report(PROP)
    work, inv = C.setup(PROP)
    tb = unitdata.load(work, inv)
    incs = C.all_includes(work) + ['sstream']
    types = C.numeric_types()
    specs = []
    total = 0
    for T in types:
        ws, obs = generate(inv, tb, T)
        obs = C.filter_obs(obs)
        total += len(obs)
        byw = {w.name: w for w in ws}
        # conversion legs used as references
        legs = {}
        for d in obs:
            if d.get('unit') is not None and d.get('unit_type'):
                e = tb[d['unit_type']]
                nm = {v: k for k, v in e['enumerators'].items()}
                ln = 'w_leg_%s_%d_%s' % (sanitize(d['unit_type']), d['unit'], T)
                if ln not in legs:
                    E = 'PhQ::' + d['unit_type']
                    legs[ln] = H.Wrapper(ln, T, 1, T, 1, 'out[0] = PhQ::ConvertStatically<%s, %s::%s, %s::%s>(in[0]);' % (E, E, nm[e['standard']], E, nm[d['unit']]), flatten=False)
        byw.update(legs)
        cas = [d for d in obs if d['kind'] == 'cascade']
        rest = [d for d in obs if d['kind'] != 'cascade']
        if cas:
            specs.append(engine.UnitSpec('c15_%s_cascade' % T, ['PhQ/Base.hpp', 'sstream'], [byw[d['w']] for d in cas], {'obs': cas, 'prop': PROP},
                                         extra_src=EXTRA, extra_clang=['-fno-inline'], native=False))
        for ci, part in enumerate(engine.chunk(rest, 4)):
            names = []
            for d in part:
                for k in ('w', 'ref'):
                    if d.get(k) and d[k] in byw and d[k] not in names:
                        names.append(d[k])
                if d.get('unit') is not None and d.get('unit_type'):
                    ln = 'w_leg_%s_%d_%s' % (sanitize(d['unit_type']), d['unit'], T)
                    if ln not in names:
                        names.append(ln)
            specs.append(engine.UnitSpec('c15_%s_%d' % (T, ci), incs, [byw[x] for x in names], {'obs': part, 'prop': PROP},
                                         extra_src=EXTRA, extra_clang=['-fno-inline'], native=False))
    results = engine.run_units(specs, worker, work)
    engine.collect(rep, results)
    rep.bounds = {'numeric_types': types, 'obligations_generated': total, 'cascade_inputs': 'every finite bit pattern of the type (NaN and infinities excluded)',
                  'composite': 'all components symbolic; one non-standard unit per quantity for the forms taking a unit'}
    rep.assumptions = ['std::ostringstream / std::string summaries (phqv/irsym/strings.py); %f / %e semantics of the C library give max_digits10 + 1 significant digits for the (notation, precision) pairs proved here',
                       'PhQ::Print<T> is an uninterpreted piece in the composite forms (its digits are the cascade obligation\'s subject)',
                       'parse-back bit identity is an environment contract (glibc printf/strtod correctly rounded + round-trip theorem), NOT decided by this check; exhaustive enumeration of 2^32 floats is not this technique',
                       'constitutive-model forms are covered for the text skeleton only through C08/C12 (type abbreviation, moduli)']
    rep.explanation = 'the notation/precision cascade of PhQ::Print decided bit-precisely for every value of each type; every composite printed/JSON/XML/YAML form and operator<< executed symbolically with string summaries'
    return rep.finish()


if __name__ == '__main__':
    sys.exit(main())
