"""shared access to the ground data of the unit tables + O-unit readings"""
from .. import tables, harness as H
from ..oracle import units as U
from fractions import Fraction as F


def load(work, inv):
    tb = tables.dump(work, inv)
    return tb


def unit_types(tb):
    return sorted(q for q in tb if q.startswith('Unit::'))


def reading(abbr, affine=False):
    """O-unit reading of an abbreviation -> UnitVal or None.  The zero offsets of degC / degF apply to absolute
    temperatures only (Unit::Temperature); as units of a temperature difference, gradient, ... they are plain scales."""
    try:
        v = U.parse(abbr)
    except (U.UnknownUnit, ZeroDivisionError, ValueError):
        return None
    if not affine and v.offset:
        v = U.UnitVal(v.mag, v.dims, v.pi)
    return v


def scale_expr(A, v):
    """SI magnitude factor of a UnitVal as an algebra value"""
    s = A.const(v.mag)
    if v.pi:
        s = s * A.pow(A.pi(), v.pi)
    return s
