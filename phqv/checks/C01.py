"""C01 - every unit converts by the factor its own symbol implies, to a few ulps.

For every unit u of every type U and every numeric type T the two static legs ConvertStatically<U, u, Standard> and
ConvertStatically<U, Standard, u> are lowered to IR and executed symbolically.  O-unit expands the unit's own
abbreviation (read from the library's table) into an exact SI magnitude s (rational times a power of pi) and, for
degC / degF only, a zero offset o.  Obligations:
  ROUND  to-standard:   | impl(x) - (s x + o) |       <= K 2^-p (|s x| + |o|)      for all real x, all rounding errors
         from-standard: | impl(y) - (y - o) / s |     <= K 2^-p (|y| + |o|) / s
  ROUND  non-standard pairs a -> b (static path) with K = 16
  BIT    both legs of the standard unit are the identity on bits
  BIT    the run-time path PhQ::Convert(x, from, to) (executed with the dispatch tables summarised from their own
         initialisers) returns the same term as the static path for every ordered pair       [see C02 for the rest]
"""
import sys
import z3
from fractions import Fraction as F
from .. import harness as H, inventory as INV, core, engine, terms as tm, modes
from ..terms import mk
from . import common as C, unitdata
from .common import CT, sanitize

PROP = 'C01'
K_LEG = 8
K_PAIR = 16


def generate(inv, tb, T, pairs_mode):
    ws, obs = [], []
    for q in unitdata.unit_types(tb):
        e = tb[q]
        E = 'PhQ::' + q
        names = {v: k for k, v in e['enumerators'].items()}
        abbr = {k: a for k, a in e['abbreviations']}
        std = e['standard']
        units = sorted(names)
        for k in units:
            nm = names[k]
            a = abbr.get(k)
            for leg in ('to', 'from'):
                o, d = (k, std) if leg == 'to' else (std, k)
                w = H.Wrapper('w_%s_%s_%d_%s' % (leg, sanitize(q), k, T), T, 1, T, 1,
                              'out[0] = PhQ::ConvertStatically<%s, %s::%s, %s::%s>(in[0]);' % (E, E, names[o], E, names[d]))
                ws.append(w)
                obs.append({'id': '%s::%s %s standard [%s]' % (q, nm, leg, CT[T]), 'w': w.name, 'kind': leg, 'abbr': a, 'std': k == std, 'affine': q == 'Unit::Temperature',
                            'stdabbr': abbr.get(std)})
        # static pairs
        if pairs_mode == 'all':
            prs = [(a_, b_) for a_ in units for b_ in units if a_ != b_ and a_ != std and b_ != std]
        else:
            ns = [u for u in units if u != std]
            prs = [(ns[i], ns[(i + 1) % len(ns)]) for i in range(len(ns))] if len(ns) > 1 else []
        for a_, b_ in prs:
            w = H.Wrapper('w_pair_%s_%d_%d_%s' % (sanitize(q), a_, b_, T), T, 1, T, 1,
                          'out[0] = PhQ::ConvertStatically<%s, %s::%s, %s::%s>(in[0]);' % (E, E, names[a_], E, names[b_]))
            ws.append(w)
            obs.append({'id': '%s::%s -> %s [%s]' % (q, names[a_], names[b_], CT[T]), 'w': w.name, 'kind': 'pair', 'affine': q == 'Unit::Temperature',
                        'abbr': abbr.get(a_), 'abbr2': abbr.get(b_)})
    return ws, obs


def worker(ctx):
    T = ctx.spec.payload['T']
    for d in ctx.spec.payload['obs']:
        engine.guarded(ctx, d['id'], lambda d=d: one(ctx, T, d))


def affine(A, v, x):
    return unitdata.scale_expr(A, v) * x + A.const(v.offset)


def one(ctx, T, d):
    w = ctx.byname[d['w']]
    res = ctx.result(d['w'])
    x0 = tm.arg(T, 'x0')
    if d['kind'] in ('to', 'from') and d['std']:
        o = ctx.ob(d['id'], 'standard-identity', 'BIT', '%s: converting the standard unit to itself is the identity on bits' % d['id'])
        if res is None or res.error:
            o.reason = ctx.why_missing(d['w'])
            return
        ctx.bit_equal(o, res.out, [x0], w, key=o.oid, replay=ctx.native_term_replay(w, [x0]))
        return
    cls = {'to': 'to-standard', 'from': 'from-standard', 'pair': 'static-pair'}[d['kind']]
    K = K_PAIR if d['kind'] == 'pair' else K_LEG
    o = ctx.ob(d['id'], cls, 'ROUND', '%s: within %d ulps of the affine map implied by the unit symbol %r%s' % (
        d['id'], K, d['abbr'], (' -> %r' % d['abbr2']) if d['kind'] == 'pair' else ''))
    if res is None or res.error or res.out[0] is None:
        o.reason = ctx.why_missing(d['w'])
        return
    va = unitdata.reading(d['abbr'], d['affine']) if d['abbr'] is not None else None
    if va is None:
        o.reason = 'O-unit cannot expand the abbreviation %r' % d['abbr']
        return
    if d['kind'] == 'to':
        spec = lambda A, x: affine(A, va, x[0])
        mag = (lambda A, x: A.abs(unitdata.scale_expr(A, va) * x[0]) + A.const(abs(va.offset))) if va.offset else None
    elif d['kind'] == 'from':
        spec = lambda A, x: (x[0] - A.const(va.offset)) / unitdata.scale_expr(A, va)
        mag = (lambda A, x: (A.abs(x[0]) + A.const(abs(va.offset))) / unitdata.scale_expr(A, va)) if va.offset else None
    else:
        vb = unitdata.reading(d['abbr2'], d['affine']) if d['abbr2'] is not None else None
        if vb is None:
            o.reason = 'O-unit cannot expand the abbreviation %r' % d['abbr2']
            return
        spec = lambda A, x: (affine(A, va, x[0]) - A.const(vb.offset)) / unitdata.scale_expr(A, vb)
        mag = None
        if va.offset or vb.offset:
            mag = lambda A, x: (A.abs(unitdata.scale_expr(A, va) * x[0]) + A.const(abs(va.offset)) + A.const(abs(vb.offset))) / unitdata.scale_expr(A, vb)
    ctx.round_bound(o, res.out[0], spec, w, K, positive=False, mag=mag, mode='ROUND')
    if d['kind'] in ('to', 'from'):
        range_obligation(ctx, T, d, w, res.out[0], spec, mag, K)
    if res.ub:
        u = ctx.ob(d['id'] + ' [ub]', 'ub-side-condition', 'BIT', d['id'] + ': no undefined behaviour on any path')
        u.reason = 'possible UB: %s %s' % (res.ub[0][1], res.ub[0][2])


def range_obligation(ctx, T, d, w, term, spec, mag, K):
    """one conversion leg whose exact result is comfortably inside the normal range computes no intermediate value that
    overflows or falls deep into the subnormal range (where the standard rounding model of the accuracy obligation stops
    applying): REAL query over the executed term's own intermediate operations; a model is replayed natively"""
    from fractions import Fraction as F
    o = ctx.ob(d['id'] + ' [range]', 'leg-range', 'REAL', '%s: whenever the exact result lies in [4 min_normal, max/4], no intermediate operation of the leg overflows or drops below min_normal/64' % d['id'])
    o.key = o.oid
    subs = [x for x in tm.walk(term) if x is not term and tm.is_f(x.ty) and x.op in ('fmul', 'fdiv', 'fadd', 'fsub')]
    if not subs:
        o.verdict = 'discharged'
        o.syntactic = True
        o.desc += ' [the leg is a single rounded operation: its only computed value is the result]'
        return
    p = tm.FPREC[T]
    MAX = (F(2) - F(2) ** (1 - p)) * F(2) ** tm.FEMAX[T]
    MINN = F(2) ** tm.FEMIN[T]
    try:
        it = modes.Real()
        r = it.ev(term)
        sv = [it.ev(x) for x in subs]
    except modes.ModeError as e:
        o.reason = str(e)
        return
    rv = lambda q: z3.RealVal('%d/%d' % (q.numerator, q.denominator))
    ab = lambda e: z3.If(e >= 0, e, -e)
    # a deeply subnormal intermediate only matters when the result depends on it multiplicatively (no sum or difference
    # anywhere in the leg); an overflowing one always does
    multiplicative = not any(x.op in ('fadd', 'fsub') for x in tm.walk(term))
    bad = z3.Or(*[z3.Or(ab(v) > rv(MAX), z3.And(v != 0, ab(v) < rv(MINN / 64)) if multiplicative else z3.BoolVal(False)) for v in sv])
    cons = it.defs + [ab(r) <= rv(MAX / 4), ab(r) >= rv(MINN * 4), bad]
    o.syntactic = False
    o.desc += ' [%d intermediate operations]' % len(subs)
    ctx.decide(o, cons, w, ctx.round_replay(w, spec, K, mag, 0, False), grid=False)


def main():
    rep = core.Report(PROP)
    work, inv = C.setup(PROP)
    tb = unitdata.load(work, inv)
    incs = C.all_includes(work)
    types = C.numeric_types()
    specs = []
    total = 0
    pairs_mode = 'all' if core.tier() == 'thorough' else 'ring'
    for T in types:
        ws, obs = generate(inv, tb, T, pairs_mode)
        obs = C.filter_obs(obs)
        total += len(obs)
        byw = {w.name: w for w in ws}
        for ci, part in enumerate(engine.chunk(obs, 5 if pairs_mode == 'ring' else 16)):
            specs.append(engine.UnitSpec('c01_%s_%d' % (T, ci), incs, [byw[d['w']] for d in part], {'T': T, 'obs': part, 'prop': PROP}))
    results = engine.run_units(specs, worker, work)
    engine.collect(rep, results)
    nunits = sum(len(tb[q]['enumerators']) for q in unitdata.unit_types(tb))
    rep.bounds = {'numeric_types': types, 'unit_types': len(unitdata.unit_types(tb)), 'units': nunits, 'static_pairs': pairs_mode,
                  'K_leg': K_LEG, 'K_pair': K_PAIR, 'inputs': 'all real x of either sign and any magnitude; every admissible rounding error'}
    rep.assumptions = [
        'standard model of rounding: no intermediate overflow or underflow',
        'the constants clang folds (static_cast<T>(a) / static_cast<T>(b) evaluated in T) are part of the analysed code',
        'O-unit (phqv/oracle/units.py) is the independent reading of each unit symbol: SI 2019 / NIST SP 811 defining values; pi enclosed in an interval of width 1e-60',
        'affine units (degC, degF): ulps at |s x| + |offset|, the largest magnitude involved (DESIGN.md section 1.2)',
        'IR of clang 14 at -O1 -ffp-contract=off; -ffast-math is outside the claim']
    rep.explanation = 'both static conversion legs of all 514 units x 3 numeric types are executed symbolically and bounded against the exact affine map that O-unit derives from the unit\'s own symbol'
    return rep.finish()


if __name__ == '__main__':
    sys.exit(main())
