"""C11 - the angle between two vectors is always a real number in [0, pi].

For each of the 8 arc-cosine kernels (Vector/PlanarVector/Direction/PlanarDirection combinations), executed symbolically:
  guard   (BIT over an abstracted cosine) on every path the value handed to acos is the constant 1, the constant -1, or a
          value c whose path condition excludes c > 1 and c < -1; with acos's contract ([-1, 1] -> [0, pi]) the result is
          a real number in [0, pi] whenever c is not NaN (inputs non-zero, norms neither overflow nor underflow)
  cosine  (REAL) c equals a.b / (|a| |b|) (or a.b / |a|, a.b for direction operands, which are unit vectors by C10):
          symmetric, independent of the lengths, +-1 for (anti)parallel vectors follow from this identity
  symmetry (BIT) Angle(a, b) and Angle(b, a) are the same term up to commutativity of * and +
  If the guard fails, a ROUND query asks for inputs whose computed cosine exceeds one in magnitude and the candidate is
  replayed natively on families of parallel vectors; only a reproduced NaN / out-of-range result is a violation.
The 20 quantity-level constructors and the Q::Angle(Q) members are bit-identical (BIT) to the kernel on the components.
"""
import sys
import z3
import numpy as np
if hasattr(sys, 'set_int_max_str_digits'):
    sys.set_int_max_str_digits(0)
from .. import harness as H, inventory as INV, core, engine, terms as tm, modes
from ..terms import mk
from . import common as C
from .common import CT, cxx, sanitize

PROP = 'C11'
SHAPE = {'Vector': 3, 'PlanarVector': 2, 'Direction': 3, 'PlanarDirection': 2}


def kernels():
    return [('Vector', 'Vector'), ('PlanarVector', 'PlanarVector'), ('Vector', 'Direction'), ('Direction', 'Vector'),
            ('PlanarVector', 'PlanarDirection'), ('PlanarDirection', 'PlanarVector'), ('Direction', 'Direction'), ('PlanarDirection', 'PlanarDirection')]


def generate(inv, T):
    ws, obs = [], []
    ct = CT[T]
    kern = {}
    for a, b in kernels():
        na, nb = SHAPE[a], SHAPE[b]
        body = 'const auto a = phqv::get<PhQ::%s<%s>>(in); const auto b = phqv::get<PhQ::%s<%s>>(in+%d); const PhQ::Angle<%s> t(a, b); phqv::put(out, t);' % (a, ct, b, ct, na, ct)
        w = H.Wrapper('w_ang_%s_%s_%s' % (a, b, T), T, na + nb, T, 1, body)
        ws.append(w)
        kern[(a, b)] = w.name
        body2 = body.replace('t(a, b)', 't(b, a)')
        w2 = H.Wrapper('w_angr_%s_%s_%s' % (a, b, T), T, na + nb, T, 1, body2)
        ws.append(w2)
        obs.append({'id': 'Angle(%s, %s) [%s]' % (a, b, ct), 'kind': 'kernel', 'w': w.name, 'rev': w2.name, 'a': a, 'b': b, 'revkern': None})
    for d in obs:
        d['revkern'] = kern.get((d['b'], d['a']))
    # quantity level
    ang = inv.classes.get('Angle', {'members': []})
    for m in ang['members']:
        if m['kind'] != 'ctor' or m['access'] != 'public' or len(m['params']) != 2:
            continue
        qa, qb = INV.qname(m['params'][0]['type']), INV.qname(m['params'][1]['type'])
        if not qa or qa != qb or qa in SHAPE or qa not in inv.classes or inv.classes[qa]['shape'] not in (2, 3):
            continue
        n = inv.classes[qa]['shape']
        base = ('Vector', 'Vector') if n == 3 else ('PlanarVector', 'PlanarVector')
        for form, expr in (('constructor', 'const PhQ::Angle<%s> t(a, b);' % ct), ('member', 'const auto t = a.Angle(b);')):
            body = 'const auto a = phqv::get<%s>(in); const auto b = phqv::get<%s>(in+%d); %s phqv::put(out, t);' % (cxx(qa, T), cxx(qa, T), n, expr)
            w = H.Wrapper('w_qang_%s_%s_%s' % (sanitize(qa), form, T), T, 2 * n, T, 1, body)
            ws.append(w)
            obs.append({'id': 'Angle of two %s (%s) [%s]' % (qa, form, ct), 'kind': 'quantity', 'w': w.name, 'kern': kern[base]})
    return ws, obs


def worker(ctx):
    T = ctx.spec.payload['T']
    for d in ctx.spec.payload['obs']:
        engine.guarded(ctx, d['id'], lambda d=d: one(ctx, T, d))


def acos_sites(t):
    """[(path guards as list of (cond term, polarity), acos argument)] for every acos application in a select tree"""
    out = []

    def rec(x, guards, inside=False):
        if x.op == 'select':
            c, a, b = x.args
            rec(a, guards + [(c, True)], inside)
            rec(b, guards + [(c, False)], inside)
        elif inside:
            out.append((guards, x))
        elif x.op == 'call' and x.args[0] == 'acos':
            rec(x.args[1], guards, True)        # the argument may itself be a clamp written with selects
        elif x.op == 'fc':
            out.append((guards, ('const-result', x)))
        else:
            out.append((guards, None))
    rec(t, [])
    return out


def cos_spec(a, b):
    na, nb = SHAPE[a], SHAPE[b]

    def f(A, x):
        u, v = x[:na], x[na:na + nb]
        dot = u[0] * v[0]
        for i in range(1, min(na, nb)):
            dot = dot + u[i] * v[i]
        den = A.const(1)
        if a in ('Vector', 'PlanarVector'):
            den = den * A.sqrt(sum((ui * ui for ui in u[1:]), u[0] * u[0]))
        if b in ('Vector', 'PlanarVector'):
            den = den * A.sqrt(sum((vi * vi for vi in v[1:]), v[0] * v[0]))
        return dot / den
    return f


def one(ctx, T, d):
    w = ctx.byname[d['w']]
    res = ctx.result(d['w'])
    if d['kind'] == 'quantity':
        o = ctx.ob(d['id'], 'quantity-angle', 'BIT', '%s: bit-identical to the vector kernel applied to the stored components' % d['id'])
        kr = ctx.result(d['kern'])
        if res is None or res.error or kr is None or kr.error:
            o.reason = ctx.why_missing(d['w'])
            return
        ctx.bit_equal(o, res.out, kr.out, w, key=o.oid, replay=ctx.native_pair_replay(w, ctx.byname[d['kern']]))
        return
    a, b = d['a'], d['b']
    na, nb = SHAPE[a], SHAPE[b]
    og = ctx.ob(d['id'] + ' [guard]', 'acos-guard', 'BIT', '%s: on every path the arc cosine is applied to 1, to -1, or to a cosine the path condition confines to [-1, 1]' % d['id'])
    og.key = og.oid
    if res is None or res.error or res.out[0] is None:
        og.reason = ctx.why_missing(d['w'])
        return
    t = res.out[0]
    sites = acos_sites(t)
    S_ = modes.FSORT[T]
    cosines = [arg for g, arg in sites if isinstance(arg, tm.T) and arg.op != 'fc']
    bad = []
    it = modes.Bit()
    unguarded = None
    for guards, arg in sites:
        if arg is None:
            bad.append(z3.BoolVal(True))
            continue
        if isinstance(arg, tuple):
            # a constant result folded by the compiler (acos(1) = 0, acos(-1) = pi): must lie in [0, pi]
            p_ = arg[1].args[0]
            if isinstance(p_, str) or not (0 <= p_ <= core.Fraction(31415928, 10 ** 7)):
                bad.append(z3.BoolVal(True))
            continue
        if arg.op == 'fc':
            if not (isinstance(arg.args[0], type(tm.fc(T, 1).args[0])) and abs(arg.args[0]) <= 1):
                bad.append(z3.BoolVal(True))
            continue
        # abstract the cosine by a free variable v; guards may only mention it through comparisons with constants
        v = z3.FP('cosine', S_)
        m = {arg.id: tm.arg(T, 'cosine')}
        gz = []
        for c, pol in guards:
            ca = tm.replace_nodes(c, m)
            if set(tm.free_args(ca)) - {'cosine'}:
                continue
            gz.append(it.ev(ca) if pol else z3.Not(it.ev(ca)))
        one_ = z3.FPVal(1.0, S_)
        q = gz + [z3.Not(z3.fpIsNaN(v)), z3.Or(z3.fpGT(v, one_), z3.fpLT(v, z3.fpNeg(one_)))]
        vv, _, secs, smt = core.solve(q, ctx.timeout, want_smt=True)
        og.secs += secs
        og.smt = smt
        if vv != 'unsat':
            unguarded = arg
            bad.append(z3.BoolVal(True))
    og.hash = og.oid
    if not bad:
        og.verdict = 'discharged'
    elif unguarded is not None:
        # candidate: ask the rounding model for inputs whose computed cosine leaves [-1, 1], then replay natively
        rep, txt = nan_replay(ctx, w, na, nb, T)
        if rep:
            og.verdict = 'violated'
            og.reason = txt
            og.replay = ctx.save_case(og, rep, {'kind': 'observed', 'impl': w.name})
        else:
            og.reason = 'acos is applied to an unguarded cosine but no NaN / out-of-range result was reproduced: ' + txt
    else:
        # the result is not an arc cosine of one guarded value (for example a second formula on some branch).  Nothing can
        # be concluded symbolically about libm functions; the candidate is replayed natively on (anti)parallel,
        # nearly (anti)parallel, perpendicular and generic pairs against atan2(|a x b|, a.b) in long double, with the
        # tolerance the property states (conditioning of the arc cosine).  Only a reproduced difference is a violation.
        rep, txt = shape_replay(ctx, w, d, na, nb, T)
        if rep:
            og.verdict = 'violated'
            og.reason = 'the result is not the arc cosine of one guarded cosine on every path, and ' + txt
            og.replay = ctx.save_case(og, rep, {'kind': 'observed', 'impl': w.name})
        else:
            og.reason = 'unexpected shape of the result term (' + txt + ')'
    # the cosine itself
    oc = ctx.ob(d['id'] + ' [cosine]', 'cosine-identity', 'REAL', '%s: the value handed to acos equals a.b / (|a| |b|) (direction operands are unit vectors)' % d['id'])
    if cosines:
        ctx.round_bound(oc, cosines[0], cos_spec(a, b), w, 0, positive=False, mode='REAL',
                        assume=lambda A, x: [z3.Or(*[xi != 0 for xi in x[:na]]), z3.Or(*[xi != 0 for xi in x[na:na + nb]])])
    else:
        oc.reason = 'no arc cosine of a computed value in the result term'
    # no intermediate of the cosine overflows, and no divisor underflows to zero, while |a|^2 and |b|^2 are representable
    if cosines:
        range_obligation(ctx, d, w, cosines[0], T, na, nb, a, b)
    # symmetry
    osy = ctx.ob(d['id'] + ' [symmetry]', 'angle-symmetry', 'BIT', '%s: Angle(a, b) and Angle(b, a) are the same value' % d['id'])
    if a == b:
        rr = ctx.result(d['rev'])
        if rr is None or rr.error:
            osy.reason = ctx.why_missing(d['rev'])
        else:
            ctx.bit_equal(osy, res.out, rr.out, w, key=osy.oid, replay=ctx.native_pair_replay(w, ctx.byname[d['rev']]))
    elif d['revkern']:
        rr = ctx.result(d['revkern'])
        if rr is None or rr.error:
            osy.reason = ctx.why_missing(d['revkern'])
        else:
            # Angle(b, a) of the other kernel with the operands exchanged
            sub = {}
            for i in range(nb):
                sub['x%d' % i] = tm.arg(T, 'x%d' % (na + i))
            for i in range(na):
                sub['x%d' % (nb + i)] = tm.arg(T, 'x%d' % i)
            exp = [tm.substitute(rr.out[0], sub)]
            ctx.bit_equal(osy, res.out, exp, w, key=osy.oid, replay=ctx.native_term_replay(w, exp))
    else:
        ctx.out['obs'].remove(osy)


def degrees(t, na):
    """degree of homogeneity (in |a|, in |b|) of every node; None where not homogeneous"""
    from fractions import Fraction as F
    deg = {}
    for x in tm.walk(t):
        if x.op == 'arg':
            i = int(x.args[0][1:])
            deg[x.id] = (F(1), F(0)) if i < na else (F(0), F(1))
        elif x.op == 'fc':
            deg[x.id] = (F(0), F(0))
        elif x.op in ('fadd', 'fsub'):
            a_, b_ = deg.get(x.args[0].id), deg.get(x.args[1].id)
            deg[x.id] = a_ if a_ == b_ else None
        elif x.op == 'fmul':
            a_, b_ = deg.get(x.args[0].id), deg.get(x.args[1].id)
            deg[x.id] = None if a_ is None or b_ is None else (a_[0] + b_[0], a_[1] + b_[1])
        elif x.op == 'fdiv':
            a_, b_ = deg.get(x.args[0].id), deg.get(x.args[1].id)
            deg[x.id] = None if a_ is None or b_ is None else (a_[0] - b_[0], a_[1] - b_[1])
        elif x.op == 'call' and x.args[0] == 'sqrt':
            a_ = deg.get(x.args[1].id)
            deg[x.id] = None if a_ is None else (a_[0] / 2, a_[1] / 2)
        elif x.op in ('fneg', 'fpext', 'fptrunc'):
            deg[x.id] = deg.get(x.args[0].id)
        else:
            deg[x.id] = None
    return deg


def range_obligation(ctx, d, w, cosine, T, na, nb, a, b):
    """REAL, by homogeneity: scale both vectors so that the largest (smallest) representable number is 1.  If the
    squared lengths are representable then a node of degree (p, q) in (|a|, |b|) must stay below MAX^(1-(p+q)/2)
    (above MIN^(1-(p+q)/2) for the nodes a divisor is made of); nodes of degree (1,1), (2,0), (1,0) get the bound 1
    or a trivial one, while e.g. |a|^2 |b|^2 (degree (2,2)) would need MAX^-1 and fails."""
    from fractions import Fraction as F
    o = ctx.ob(d['id'] + ' [range]', 'cosine-range', 'REAL', '%s: no intermediate of the cosine overflows and nothing a divisor is made of underflows while |a|^2 and |b|^2 are representable (independence of the lengths over the whole non-overflowing range)' % d['id'])
    o.key = o.oid
    it = modes.Real(prefix='r')
    try:
        it.ev(cosine)
    except modes.ModeError as e:
        o.reason = str(e)
        return
    deg = degrees(cosine, na)
    x = [z3.Real('x%d' % i) for i in range(na + nb)]
    Sa = sum((v * v for v in x[1:na]), x[0] * x[0])
    Sb = sum((v * v for v in x[na + 1:na + nb]), x[na] * x[na])
    unit_a, unit_b = a in ('Direction', 'PlanarDirection'), b in ('Direction', 'PlanarDirection')
    divisor_nodes = set()

    def spine(n_):
        # nodes whose underflow to zero would zero the divisor: factors of products and radicands, not summands
        divisor_nodes.add(n_.id)
        if n_.op == 'fmul':
            spine(n_.args[0])
            spine(n_.args[1])
        elif n_.op == 'call' and n_.args[0] == 'sqrt':
            spine(n_.args[1])
    for n_ in tm.walk(cosine):
        if n_.op == 'fdiv':
            spine(n_.args[1])
    total = 0.0
    nq = 0
    o.hash = o.oid
    for which, E_ in (('overflow', tm.FEMAX[T] + 1), ('underflow', tm.FEMIN[T])):
        # unit vectors are not rescaled: their degree does not count
        asm = list(it.defs)
        asm += [Sa == 1] if unit_a else ([Sa <= 1] if which == 'overflow' else [Sa >= 1])
        asm += [Sb == 1] if unit_b else ([Sb <= 1] if which == 'overflow' else [Sb >= 1])
        for n_ in tm.walk(cosine):
            if not (n_.op in ('fmul', 'fadd', 'fsub', 'fdiv') or (n_.op == 'call' and n_.args[0] == 'sqrt')):
                continue
            if which == 'underflow' and n_.id not in divisor_nodes:
                continue
            dg = deg.get(n_.id)
            if dg is None:
                o.reason = 'a node of the cosine is not homogeneous in the lengths'
                return
            p_ = (F(0) if unit_a else dg[0]) + (F(0) if unit_b else dg[1])
            ex = E_ * (1 - p_ / 2)
            if ex.denominator != 1:
                ex = F(int(ex) + (1 if which == 'underflow' else 0)) if ex > 0 else F(int(ex) - (0 if which == 'underflow' else 1))
            if n_ is cosine and which == 'overflow':
                continue          # |cosine| <= 1 is the Cauchy-Schwarz inequality; out-of-range values are the guard's subject
            # a tighter (hence sufficient) threshold keeps the constants small
            ex = min(int(ex), 8) if which == 'overflow' else max(int(ex), -8)
            thr = z3.RealVal(str(F(2) ** int(ex)))
            e = it.memo[n_.id]
            cond = z3.Or(e > thr, e < -thr) if which == 'overflow' else z3.And(e < thr, e > -thr)
            nq += 1
            ctx.decide(o, asm + [cond], w, range_replay(ctx, w, na, nb, T), grid=False)
            total += o.secs or 0.0
            if o.verdict != 'discharged':
                o.reason = '%s of %s: %s' % (which, tm.show(n_, 3), o.reason)
                o.secs = total
                return
    o.secs = total
    o.desc += ' [%d scaled range conditions, one query each]' % nq


def range_replay(ctx, w, na, nb, T):
    def rp(xs):
        t = H.NPT[T]
        n = min(na, nb)
        big = t(2.0) ** t(tm.FEMAX[T] // 2 - 2)
        small = t(2.0) ** t(tm.FEMIN[T] // 2 + 2)
        for sc in (big, small):
            a = [t(0.6) * sc, t(-0.3) * sc, t(0.5) * sc][:na]
            b = [t(0.2) * sc, t(0.7) * sc, t(-0.4) * sc][:nb]
            o1, _ = ctx.unit.call_native(w, a + b)
            a1 = [t(0.6), t(-0.3), t(0.5)][:na]
            b1 = [t(0.2), t(0.7), t(-0.4)][:nb]
            o2, _ = ctx.unit.call_native(w, a1 + b1)
            if np.isnan(o1[0]) or abs(np.longdouble(o1[0]) - np.longdouble(o2[0])) > 1e-3:
                rp.case['inputs_override'] = [core.hexf(v) for v in a + b]
                return True, 'Angle = %r for vectors of length ~%.3g but %r for the same directions at length ~1' % (o1[0], float(sc), o2[0])
        return False, 'rescaled vectors give the same angle'
    rp.case = {'kind': 'observed', 'impl': w.name}
    return rp


def shape_replay(ctx, w, d, na, nb, T):
    t = H.NPT[T]
    L = np.longdouble
    tol = {'f32': 2e-3, 'f64': 1e-6, 'f80': 1e-6}[T]
    rng = np.random.default_rng(11)

    def unit(v):
        m = np.sqrt(sum(L(x) * L(x) for x in v))
        return [L(x) / m for x in v]
    n = min(na, nb)
    for trial in range(600):
        a = [L(v) for v in rng.normal(size=n)]
        kind = trial % 6
        if kind == 0:
            b = [x * L(2.5) for x in a]
        elif kind == 1:
            b = [-x * L(0.75) for x in a]
        elif kind == 2:
            b = [-x + L(1e-3) * L(v) for x, v in zip(a, rng.normal(size=n))]
        elif kind == 3:
            b = [x + L(1e-3) * L(v) for x, v in zip(a, rng.normal(size=n))]
        elif kind == 4:
            b = [-a[1], a[0]] + [L(0)] * (n - 2)
        else:
            b = [L(v) for v in rng.normal(size=n)]
        if 'Direction' in d.get('a', ''):
            a = unit(a)
        if 'Direction' in d.get('b', ''):
            b = unit(b)
        a = [t(x) for x in a] + [t(0)] * (na - n)
        b = [t(x) for x in b] + [t(0)] * (nb - n)
        if all(x == 0 for x in a) or all(x == 0 for x in b):
            continue
        al, bl = [L(x) for x in a], [L(x) for x in b]
        m = max(na, nb, 3)
        al += [L(0)] * (m - len(al))
        bl += [L(0)] * (m - len(bl))
        cx = [al[1] * bl[2] - al[2] * bl[1], al[2] * bl[0] - al[0] * bl[2], al[0] * bl[1] - al[1] * bl[0]]
        ref = np.arctan2(np.sqrt(sum(c * c for c in cx)), sum(x * y for x, y in zip(al, bl)))
        o, _ = ctx.unit.call_native(w, a + b)
        v = o[0]
        if np.isnan(v) or abs(L(v) - ref) > tol:
            return a + b, 'Angle = %r where atan2(|a x b|, a.b) = %.12g for a = %s, b = %s' % (v, float(ref), [float(x) for x in a], [float(x) for x in b])
    return None, '600 pairs agree with atan2(|a x b|, a.b)'


def nan_replay(ctx, w, na, nb, T):
    """native search on (anti)parallel families for a NaN or out-of-[0, pi] angle"""
    t = H.NPT[T]
    rng = np.random.default_rng(7)
    pi = np.longdouble(np.pi) * (1 + np.longdouble(1e-15))
    n = min(na, nb)
    for trial in range(4000):
        a = [t(v) for v in rng.normal(size=na)]
        k = t([3.7, -2.3, 0.1, 7.0, -0.5][trial % 5])
        b = [a[i] * k if i < n else t(0) for i in range(nb)]
        if na > nb:
            a = a[:n] + [t(0)] * (na - n)
        xs = a + b
        o, _ = ctx.unit.call_native(w, xs)
        v = o[0]
        if np.isnan(v) or v < 0 or np.longdouble(v) > pi:
            return xs, 'Angle = %r for a = %s, b = %s * a' % (v, [float(x) for x in a], float(k))
    return None, '4000 (anti)parallel pairs tried'


def main():
    rep = core.Report(PROP)
    work, inv = C.setup(PROP)
    incs = C.all_includes(work)
    types = C.numeric_types()
    specs = []
    total = 0
    for T in types:
        ws, obs = generate(inv, T)
        obs = C.filter_obs(obs)
        total += len(obs)
        byw = {w.name: w for w in ws}
        for ci, part in enumerate(engine.chunk(obs, 5)):
            names = []
            for d in part:
                for key in ('w', 'rev', 'kern', 'revkern'):
                    if d.get(key) and d[key] not in names:
                        names.append(d[key])
            specs.append(engine.UnitSpec('c11_%s_%d' % (T, ci), incs, [byw[x] for x in names], {'T': T, 'obs': part, 'prop': PROP}))
    results = engine.run_units(specs, worker, work)
    engine.collect(rep, results)
    rep.bounds = {'numeric_types': types, 'kernels': 8, 'entry_points': total}
    rep.assumptions = ['acos contract: arguments in [-1, 1] give a real number in [0, pi] (libm)', 'inputs non-zero and finite, norms and their product neither overflow nor underflow (otherwise the cosine itself is NaN)',
                       'agreement with atan2(|a x b|, a.b) to 1e-7 rad is a statement about libm and the conditioning of acos: not decided; cos(theta) = a.b/(|a||b|) is (REAL)',
                       'direction operands are unit vectors (C10)']
    rep.explanation = 'every arc-cosine kernel executed symbolically: the clamp is shown to confine the argument on every path, the cosine is the textbook expression over the reals, the angle is symmetric; quantity-level forms are bit-identical to the kernels'
    return rep.finish()


if __name__ == '__main__':
    sys.exit(main())
