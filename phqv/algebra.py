"""Two algebras over which specification formulas are written once and evaluated twice:
   Z3Alg   : z3 real expressions (square roots become auxiliary variables with defining constraints)
   FracAlg : exact python Fractions (square roots to 2^-220 relative accuracy) for replay / ulp measurement
A specification is a function  spec(A, xs) -> value  using + - * / and A.sqrt, A.const, A.abs.
"""
from fractions import Fraction
import math
import z3


PI_DIGITS = '3.14159265358979323846264338327950288419716939937510582097494459230781640628620899862803482534211706798'
PI_LO = Fraction(PI_DIGITS[:62])
PI_HI = PI_LO + Fraction(1, 10 ** 60)


class Z3Alg:
    exact = True

    def pi(self):
        """pi as a variable enclosed in a rational interval of width 1e-60 (far below 2^-64 relative), so a verdict
        holds for the true value"""
        p = z3.Real('pi!')
        if not getattr(self, '_pi', False):
            self._pi = True
            self.defs += [p > self.const(PI_LO), p < self.const(PI_HI)]
        return p

    def pow(self, v, n):
        r = self.const(1)
        for _ in range(abs(n)):
            r = r * v
        return r if n >= 0 else 1 / r

    def __init__(self, prefix='s'):
        self.defs = []
        self.n = 0
        self.prefix = prefix

    def const(self, q):
        q = Fraction(q)
        return z3.RealVal('%d/%d' % (q.numerator, q.denominator))

    def sqrt(self, v):
        self.n += 1
        y = z3.Real('%ssqrt!%d' % (self.prefix, self.n))
        self.defs += [y >= 0, y * y == v]
        return y

    def abs(self, v):
        return z3.If(v >= 0, v, -v)

    def var(self, name):
        return z3.Real(name)


class FracAlg:
    exact = False

    def pi(self):
        return Fraction(PI_DIGITS)

    def pow(self, v, n):
        return Fraction(v) ** n

    def const(self, q):
        return Fraction(q)

    def sqrt(self, v):
        v = Fraction(v)
        if v < 0:
            raise ValueError('sqrt of negative')
        if v == 0:
            return Fraction(0)
        # scale to an integer with >= 440 significant bits, take isqrt
        k = 0
        n, d = v.numerator, v.denominator
        sh = max(0, 460 - (n.bit_length() - d.bit_length()))
        if sh % 2:
            sh += 1
        q = (n << sh) // d
        return Fraction(math.isqrt(q), 1 << (sh // 2))

    def abs(self, v):
        return abs(v)


def ulp(ty_prec, emin, e):
    """ulp_T(e) = 2^(floor(log2|e|) - p + 1), never below the subnormal spacing"""
    e = abs(Fraction(e))
    if e == 0:
        return Fraction(2) ** (emin - ty_prec + 1)
    k = e.numerator.bit_length() - e.denominator.bit_length()
    if Fraction(2) ** k > e:
        k -= 1
    k = max(k, emin)
    return Fraction(2) ** (k - ty_prec + 1)
