"""Replay a saved counterexample against the natively compiled real code (g++, no -ffast-math)."""
import json, sys
import numpy as np
from . import harness as H, core, engine


def program(c):
    """a self-contained probe program: build it with the recorded compiler(s) against /repo/include and run it"""
    import os, subprocess
    work = H.scratch_dir()
    inc = H.include_dir(work)
    src = os.path.join(work, 'probe.cpp')
    open(src, 'w').write(c['source'])
    print('property   :', c.get('property'))
    print('obligation :', c.get('obligation'))
    print('statement  :', c.get('statement'))
    bad = False
    for n, b in enumerate(c.get('builds', [])):
        exe = os.path.join(work, 'probe%d' % n)
        cmd = [b['compiler']] + b['flags'] + ['-I', inc, src, '-o', exe]
        rc, out, err = H.run_cmd(cmd)
        print('build      :', ' '.join(cmd[:-4]), '-> rc', rc)
        if rc != 0:
            print(err[-600:])
            continue
        p = subprocess.run((['valgrind', '-q', '--error-exitcode=9'] if b.get('valgrind') else []) + [exe], stdout=subprocess.PIPE, stderr=subprocess.STDOUT, timeout=600)
        print('run        : exit status', p.returncode)
        print(p.stdout.decode('utf-8', 'replace')[-600:])
        bad = bad or p.returncode != 0
    print('REPRODUCED' if bad else 'NOT REPRODUCED')
    return 1 if bad else 0


def main(path):
    c = json.load(open(path))
    if c.get('kind') == 'program':
        return program(c)
    if c.get('kind') == 'ground' or not c.get('wrappers'):
        print('property   :', c.get('property'))
        print('obligation :', c.get('obligation'))
        print('statement  :', c.get('statement'))
        print('observed   :', c.get('observed'))
        print('(a ground fact about the tables / declarations of the current tree; re-run the check to re-evaluate it)')
        return 1
    work = H.scratch_dir()
    ws = [H.Wrapper(d['name'], d['in_ty'], d['n_in'], d['out_ty'], d['n_out'], d['body'], d['n_iout'], None, d.get('n_iin', 0)) for d in c['wrappers']]
    u = H.Unit(work, 'replay', c['includes'], ws, c.get('extra_src', ''))
    u.compiled = ws
    u.compile_native()
    by = {w.name: w for w in ws}
    w = by[c['impl']]
    xs = [core.parse_hexf(s, w.in_ty) for s in c['inputs']]
    ks = c.get('iinputs', [])
    o, io = u.call_native(w, xs, ks)
    print('property   :', c['property'])
    print('obligation :', c['obligation'])
    print('statement  :', c['statement'])
    print('inputs     :', [repr(x) for x in xs])
    print('impl out   :', [repr(x) for x in o], list(io))
    bad = False
    if c['kind'] == 'pair':
        o2, io2 = u.call_native(by[c['ref']], xs, ks)
        print('reference  :', [repr(x) for x in o2], list(io2))
        bad = any(not engine.same_float(a, b) for a, b in zip(o, o2)) or list(io) != list(io2)
    elif c['kind'] == 'values':
        exp = [core.parse_hexf(s, w.out_ty) for s in c.get('expected_out', [])]
        print('expected   :', [repr(x) for x in exp], c.get('expected_iout'))
        bad = any(not engine.same_float(a, b) for a, b in zip(o, exp))
        bad = bad or any((a & 0xFFFFFFFFFFFFFFFF) != (b & 0xFFFFFFFFFFFFFFFF) for a, b in zip(io, c.get('expected_iout', [])))
    elif c['kind'] == 'ulp':
        from fractions import Fraction
        from .algebra import ulp
        from . import terms as tm
        n, d = c['exact'].split('/')
        E = Fraction(int(n), int(d))
        n, d = c['magnitude'].split('/')
        M = Fraction(int(n), int(d))
        got = o[c.get('out_index', 0)]
        T = w.out_ty
        if not np.isfinite(got):
            err = float('inf')
        else:
            err = float(abs(core.np_to_frac(got) - E) / ulp(tm.FPREC[T], tm.FEMIN[T], M))
        print('exact value: %.20g   impl: %r   error: %.4g ulps   allowed: %s' % (float(E), got, err, c['K']))
        bad = err > c['K']
    else:
        print('observed at detection time:', c.get('observed'))
        bad = True
    print('REPRODUCED' if bad else 'NOT REPRODUCED')
    return 1 if bad else 0
