"""Hash-consed neutral term DAG produced by the IR executor.

A term is T(op, ty, args).  ty is one of 'f32','f64','f80','i1','i8','i16','i32','i64','i128'.
args are terms or python literals (Fraction / int / str).  Commutative FP/int operators keep their
operands sorted by term id, so a*b and b*a are the same node.

Ops:
  arg(name)                    free input
  fc(payload)                  FP constant: Fraction | 'inf' | '-inf' | 'nan' | '-0'
  ic(int)                      integer constant (unsigned representation modulo 2^bits)
  fadd fsub fmul fdiv frem fneg
  fcmp(pred,a,b) icmp(pred,a,b)       -> i1
  add sub mul udiv sdiv urem srem shl lshr ashr and or xor
  zext sext trunc fpext fptrunc sitofp uitofp fptosi fptoui bitcast
  select(c,a,b)
  call(name, args...)          libm / uninterpreted function
  concat(hi, lo) / extract(hi_bit, lo_bit, a)
"""
from fractions import Fraction

_table = {}
_next = [0]


class T:
    __slots__ = ('op', 'ty', 'args', 'id', '_h')

    def __init__(self, op, ty, args, i):
        self.op, self.ty, self.args, self.id = op, ty, args, i
        self._h = hash((op, ty, i))

    def __hash__(self):
        return self._h

    def __eq__(self, o):
        return self is o

    def __repr__(self):
        return show(self)


def _key(a):
    return ('t', a.id) if isinstance(a, T) else ('l', a)


def _raw(op, ty, args):
    k = (op, ty, tuple(_key(a) for a in args))
    t = _table.get(k)
    if t is None:
        t = T(op, ty, tuple(args), _next[0])
        _next[0] += 1
        _table[k] = t
    return t


FBITS = {'f32': 32, 'f64': 64, 'f80': 80}
FPREC = {'f32': 24, 'f64': 53, 'f80': 64}
FEMIN = {'f32': -126, 'f64': -1022, 'f80': -16382}
FEMAX = {'f32': 127, 'f64': 1023, 'f80': 16383}
COMM = {'fadd', 'fmul', 'add', 'mul', 'and', 'or', 'xor'}


def ibits(ty):
    return int(ty[1:])


def is_f(ty):
    return ty in FBITS


def ic(ty, v):
    return _raw('ic', ty, (v & ((1 << ibits(ty)) - 1),))


def fc(ty, payload):
    if isinstance(payload, (int, float)):
        payload = Fraction(payload)
    return _raw('fc', ty, (payload,))


def arg(ty, name):
    return _raw('arg', ty, (name,))


def is_ic(t):
    return isinstance(t, T) and t.op == 'ic'


def sval(t):
    """signed value of an ic"""
    b = ibits(t.ty)
    v = t.args[0]
    return v - (1 << b) if v >> (b - 1) else v


ICMP = {
    'eq': lambda a, b, sa, sb: a == b, 'ne': lambda a, b, sa, sb: a != b,
    'ugt': lambda a, b, sa, sb: a > b, 'uge': lambda a, b, sa, sb: a >= b,
    'ult': lambda a, b, sa, sb: a < b, 'ule': lambda a, b, sa, sb: a <= b,
    'sgt': lambda a, b, sa, sb: sa > sb, 'sge': lambda a, b, sa, sb: sa >= sb,
    'slt': lambda a, b, sa, sb: sa < sb, 'sle': lambda a, b, sa, sb: sa <= sb,
}

NEG_FCMP = {'oeq': 'une', 'une': 'oeq', 'olt': 'uge', 'uge': 'olt', 'ole': 'ugt', 'ugt': 'ole',
            'ogt': 'ule', 'ule': 'ogt', 'oge': 'ult', 'ult': 'oge', 'one': 'ueq', 'ueq': 'one',
            'ord': 'uno', 'uno': 'ord'}
NEG_ICMP = {'eq': 'ne', 'ne': 'eq', 'ugt': 'ule', 'ule': 'ugt', 'uge': 'ult', 'ult': 'uge',
            'sgt': 'sle', 'sle': 'sgt', 'sge': 'slt', 'slt': 'sge'}


def mk(op, ty, *args):
    """smart constructor with integer constant folding and light simplification"""
    if op in ('add', 'sub', 'mul', 'and', 'or', 'xor', 'shl', 'lshr', 'ashr', 'udiv', 'sdiv', 'urem', 'srem'):
        a, b = args
        if is_ic(a) and is_ic(b):
            bits = ibits(ty)
            x, y = a.args[0], b.args[0]
            sx, sy = sval(a), sval(b)
            r = None
            if op == 'add': r = x + y
            elif op == 'sub': r = x - y
            elif op == 'mul': r = x * y
            elif op == 'and': r = x & y
            elif op == 'or': r = x | y
            elif op == 'xor': r = x ^ y
            elif op == 'shl' and y < bits: r = x << y
            elif op == 'lshr' and y < bits: r = x >> y
            elif op == 'ashr' and y < bits: r = sx >> y
            elif op == 'udiv' and y: r = x // y
            elif op == 'urem' and y: r = x % y
            elif op == 'sdiv' and sy: r = abs(sx) // abs(sy) * (1 if (sx < 0) == (sy < 0) else -1)
            elif op == 'srem' and sy: r = abs(sx) % abs(sy) * (1 if sx >= 0 else -1)
            if r is not None:
                return ic(ty, r)
        if op in ('add', 'or', 'xor', 'sub', 'shl', 'lshr', 'ashr') and is_ic(b) and b.args[0] == 0:
            return a
        if op in ('add', 'or', 'xor') and is_ic(a) and a.args[0] == 0:
            return b
        if op == 'and' and ty == 'i1':
            if is_ic(a):
                return b if a.args[0] else a
            if is_ic(b):
                return a if b.args[0] else b
        if op == 'or' and ty == 'i1':
            if is_ic(a):
                return a if a.args[0] else b
            if is_ic(b):
                return b if b.args[0] else a
        if op == 'xor' and ty == 'i1' and is_ic(b) and b.args[0] == 1:
            return negate(a)
        if op == 'mul' and is_ic(b) and b.args[0] == 1:
            return a
        if op == 'mul' and is_ic(a) and a.args[0] == 1:
            return b
    elif op == 'icmp':
        p, a, b = args
        if is_ic(a) and is_ic(b):
            return ic('i1', 1 if ICMP[p](a.args[0], b.args[0], sval(a), sval(b)) else 0)
        if a is b:
            return ic('i1', 1 if p in ('eq', 'uge', 'ule', 'sge', 'sle') else 0)
    elif op in ('zext', 'sext', 'trunc'):
        (a,) = args
        if is_ic(a):
            return ic(ty, sval(a) if op == 'sext' else a.args[0])
        if a.ty == ty:
            return a
    elif op == 'select':
        c, a, b = args
        if is_ic(c):
            return a if c.args[0] else b
        if a is b:
            return a
    elif op == 'bitcast':
        (a,) = args
        if a.ty == ty:
            return a
        if a.op == 'bitcast' and a.args[0].ty == ty:
            return a.args[0]
        if a.op == 'ic' and is_f(ty):
            return fc(ty, decode_bits(ty, a.args[0]))
        if a.op == 'select':
            return mk('select', ty, a.args[0], mk('bitcast', ty, a.args[1]), mk('bitcast', ty, a.args[2]))
    elif op == 'fneg':
        (a,) = args
        if a.op == 'fc' and isinstance(a.args[0], Fraction) and a.args[0] != 0:
            return fc(ty, -a.args[0])
    elif op == 'fptrunc':
        (a,) = args
        if a.op == 'fpext' and a.args[0].ty == ty:
            return a.args[0]          # widening then narrowing back is the identity
    elif op in ('fpext', 'sitofp', 'uitofp'):
        (a,) = args
        if op == 'fpext' and a.op == 'fc':
            return fc(ty, a.args[0])
        if op in ('sitofp', 'uitofp') and is_ic(a):
            v = sval(a) if op == 'sitofp' else a.args[0]
            if abs(v) < (1 << 24):
                return fc(ty, Fraction(v))
    elif op == 'extract':
        hi, lo, a = args
        if is_ic(a):
            return ic(ty, a.args[0] >> lo)
        if lo == 0 and hi == ibits(a.ty) - 1:
            return a
        if a.op == 'concat':
            h, l = a.args
            lb = ibits(l.ty)
            if hi < lb:
                return mk('extract', ty, hi, lo, l)
            if lo >= lb:
                return mk('extract', ty, hi - lb, lo - lb, h)
        if a.op == 'extract':
            return mk('extract', ty, hi + a.args[1], lo + a.args[1], a.args[2])
        if a.op in ('zext',) and hi < ibits(a.args[0].ty):
            return mk('extract', ty, hi, lo, a.args[0])
        if a.op == 'select':
            return mk('select', ty, a.args[0], mk('extract', ty, hi, lo, a.args[1]), mk('extract', ty, hi, lo, a.args[2]))
        if a.op == 'or' and len(a.args) == 2:
            # two values packed into one integer: or(shl(zext(H), s), zext(L)) with L narrower than s bits
            # (clang passes a pair of floats as one i64 / <2 x float>)
            for x, y in ((a.args[0], a.args[1]), (a.args[1], a.args[0])):
                if isinstance(x, T) and isinstance(y, T) and x.op == 'shl' and is_ic(x.args[1]) and isinstance(x.args[0], T) and x.args[0].op == 'zext' \
                        and y.op == 'zext':
                    s_ = x.args[1].args[0]
                    H_, L_ = x.args[0].args[0], y.args[0]
                    if ibits(L_.ty) <= s_:
                        if hi < s_ and hi < ibits(L_.ty):
                            return mk('extract', ty, hi, lo, L_)
                        if lo >= s_ and hi - s_ < ibits(H_.ty):
                            return mk('extract', ty, hi - s_, lo - s_, H_)
    elif op == 'concat':
        h, l = args
        if h.op == 'extract' and l.op == 'extract' and h.args[2] is l.args[2] and h.args[1] == l.args[0] + 1:
            return mk('extract', ty, h.args[0], l.args[1], h.args[2])
        if l.op == 'concat' and h.op == 'extract':
            # concat(h, concat(m, r)) with h, m adjacent extracts of the same value: merge them first
            m_, r_ = l.args
            if m_.op == 'extract' and m_.args[2] is h.args[2] and h.args[1] == m_.args[0] + 1:
                hm = mk('extract', 'i%d' % (ibits(h.ty) + ibits(m_.ty)), h.args[0], m_.args[1], h.args[2])
                return mk('concat', ty, hm, r_)
    if op in COMM:
        a, b = args
        if a.id > b.id:
            args = (b, a)
    return _raw(op, ty, args)


def decode_bits(ty, bits):
    """IEEE / x87 bit pattern -> fc payload"""
    if ty == 'f80':
        s_ = (bits >> 79) & 1
        e = (bits >> 64) & 0x7FFF
        m = bits & ((1 << 64) - 1)
        if e == 0x7FFF:
            return 'nan' if m & ((1 << 63) - 1) else ('-inf' if s_ else 'inf')
        v = Fraction(m, 1 << 63) * Fraction(2) ** ((e if e else 1) - 16383)
    else:
        eb, mb, bias = (8, 23, 127) if ty == 'f32' else (11, 52, 1023)
        s_ = (bits >> (eb + mb)) & 1
        e = (bits >> mb) & ((1 << eb) - 1)
        m = bits & ((1 << mb) - 1)
        if e == (1 << eb) - 1:
            return 'nan' if m else ('-inf' if s_ else 'inf')
        if e == 0:
            v = Fraction(m, 1 << mb) * Fraction(2) ** (1 - bias)
        else:
            v = (1 + Fraction(m, 1 << mb)) * Fraction(2) ** (e - bias)
    if v == 0:
        return '-0' if s_ else Fraction(0)
    return -v if s_ else v


def negate(c):
    """logical negation of an i1 term, pushing through comparisons"""
    if is_ic(c):
        return ic('i1', 1 - c.args[0])
    if c.op == 'fcmp':
        return _raw('fcmp', 'i1', (NEG_FCMP[c.args[0]], c.args[1], c.args[2]))
    if c.op == 'icmp':
        return mk('icmp', 'i1', NEG_ICMP[c.args[0]], c.args[1], c.args[2])
    if c.op == 'xor' and is_ic(c.args[0]) and c.args[0].args[0] == 1:
        return c.args[1]
    if c.op == 'not':
        return c.args[0]
    return _raw('not', 'i1', (c,))


def show(t, depth=6):
    if not isinstance(t, T):
        return str(t)
    if t.op == 'arg':
        return t.args[0]
    if t.op == 'ic':
        return '%d:%s' % (t.args[0], t.ty)
    if t.op == 'fc':
        p = t.args[0]
        if isinstance(p, Fraction):
            try:
                return repr(float(p)) if Fraction(float(p)) == p else '(%s)' % p
            except OverflowError:
                return '(%s)' % p
        return str(p)
    if depth <= 0:
        return '...'
    return '%s(%s)' % (t.op, ', '.join(show(a, depth - 1) for a in t.args))


def walk(t, seen=None):
    """post-order DAG traversal"""
    if seen is None:
        seen = set()
    stack = [(t, False)]
    while stack:
        x, done = stack.pop()
        if not isinstance(x, T):
            continue
        if done:
            yield x
            continue
        if x.id in seen:
            continue
        seen.add(x.id)
        stack.append((x, True))
        for a in x.args:
            if isinstance(a, T):
                stack.append((a, False))


def count_ops(t, ops=('fadd', 'fsub', 'fmul', 'fdiv', 'call', 'fptrunc')):
    return sum(1 for x in walk(t) if x.op in ops)


def free_args(t):
    return sorted({x.args[0] for x in walk(t) if x.op == 'arg'})


def substitute(t, mapping, memo=None):
    """replace arg terms by other terms; mapping: name -> term"""
    if memo is None:
        memo = {}
    for x in walk(t):
        if x.op == 'arg':
            memo[x.id] = mapping.get(x.args[0], x)
        else:
            na = tuple(memo[a.id] if isinstance(a, T) else a for a in x.args)
            if all(p is q for p, q in zip(na, x.args)):
                memo[x.id] = x
            else:
                memo[x.id] = mk(x.op, x.ty, *na)
    return memo[t.id]


def arg_sets(t):
    """node id -> frozenset of free argument names (bottom-up)"""
    fs = {}
    for x in walk(t):
        if x.op == 'arg':
            fs[x.id] = frozenset([x.args[0]])
        else:
            s = frozenset()
            for a in x.args:
                if isinstance(a, T):
                    s = s | fs[a.id]
            fs[x.id] = s
    return fs


def maximal_single_input(t, want_int=True):
    """maximal proper-or-improper subterms that depend on exactly one free argument (and are not the bare
    argument); returns list of nodes"""
    fs = arg_sets(t)
    out = []
    seen = set()
    stack = [t]
    while stack:
        x = stack.pop()
        if not isinstance(x, T) or x.id in seen:
            continue
        seen.add(x.id)
        if len(fs[x.id]) == 1 and x.op != 'arg' and (not want_int or not is_f(x.ty)):
            out.append(x)
            continue
        for a in x.args:
            if isinstance(a, T):
                stack.append(a)
    return out


def replace_nodes(t, mapping):
    """rebuild t with nodes (by id) replaced: mapping node id -> term"""
    memo = {}
    order = []
    seen = set()
    stack = [(t, False)]
    while stack:
        x, done = stack.pop()
        if not isinstance(x, T):
            continue
        if done:
            order.append(x)
            continue
        if x.id in seen:
            continue
        seen.add(x.id)
        if x.id in mapping:
            memo[x.id] = mapping[x.id]
            continue
        stack.append((x, True))
        for a in x.args:
            if isinstance(a, T):
                stack.append((a, False))
    for x in order:
        na = tuple(memo[a.id] if isinstance(a, T) else a for a in x.args)
        memo[x.id] = x if all(p is q for p, q in zip(na, x.args)) else mk(x.op, x.ty, *na)
    return memo[t.id]
