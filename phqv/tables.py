"""Ground data of the current tree, dumped by a generated native program that iterates the library's own
namespace-scope tables (abbreviations, spellings, consistent units, related unit systems, conversion dispatch keys,
standard units, declared dimension sets) - no lookups, so a missing entry cannot crash the dump."""
import os, json, subprocess
from . import harness as H

DIMS = ['Time', 'Length', 'Mass', 'ElectricCurrent', 'Temperature', 'SubstanceAmount', 'LuminousIntensity']


def cxx_enum(q):
    return 'PhQ::' + q


def generate(inv):
    L = ['#include <cstdio>', '#include <string>', '#include <string_view>']
    L.append('static void js(std::string_view s){ putchar(\'"\'); for(unsigned char c: s){ if(c==\'"\'||c==\'\\\\\') { putchar(\'\\\\\'); putchar(c);} else if(c<32) printf("\\\\u%04x",c); else putchar(c);} putchar(\'"\'); }')
    L.append('int main(){ printf("{\\n");')
    first = True
    for q, e in sorted(inv.enums.items()):
        E = cxx_enum(q)
        L.append('printf("%s\\"%s\\": {");' % ('' if first else ',\\n', q))
        first = False
        L.append('printf("\\"enumerators\\": {"); ')
        for i, n in enumerate(e['enumerators']):
            L.append('printf("%s\\"%s\\": %%d", (int)%s::%s);' % ('' if i == 0 else ', ', n, E, n))
        L.append('printf("}");')
        L.append('printf(", \\"abbreviations\\": ["); { bool f=true; for (const auto& kv : PhQ::Internal::Abbreviations<%s>) { printf("%%s[%%d, ", f?"":", ", (int)kv.first); js(kv.second); printf("]"); f=false; } } printf("]");' % E)
        L.append('printf(", \\"spellings\\": ["); { bool f=true; for (const auto& kv : PhQ::Internal::Spellings<%s>) { printf("%%s[", f?"":", "); js(kv.first); printf(", %%d]", (int)kv.second); f=false; } } printf("]");' % E)
        if q.startswith('Unit::'):
            L.append('printf(", \\"standard\\": %%d", (int)PhQ::Standard<%s>);' % E)
            L.append('{ const PhQ::Dimensions& d = PhQ::RelatedDimensions<%s>; printf(", \\"dimensions\\": [%%d,%%d,%%d,%%d,%%d,%%d,%%d]", %s); }' % (
                E, ', '.join('(int)d.%s().Value()' % x for x in DIMS)))
            L.append('printf(", \\"consistent\\": ["); { bool f=true; for (const auto& kv : PhQ::Internal::ConsistentUnits<%s>) { printf("%%s[%%d, %%d]", f?"":", ", (int)kv.first, (int)kv.second); f=false; } } printf("]");' % E)
            L.append('printf(", \\"related\\": ["); { bool f=true; for (const auto& kv : PhQ::Internal::RelatedUnitSystems<%s>) { printf("%%s[%%d, %%d]", f?"":", ", (int)kv.first, (int)kv.second); f=false; } } printf("]");' % E)
            for T, ct in (('f32', 'float'), ('f64', 'double'), ('f80', 'long double')):
                for d in ('To', 'From'):
                    L.append('printf(", \\"conv_%s_%s\\": ["); { bool f=true; for (const auto& kv : PhQ::Internal::MapOfConversions%sStandard<%s, %s>) { printf("%%s[%%d, %%d]", f?"":", ", (int)kv.first, (int)(bool)kv.second); f=false; } } printf("]");' % (
                        d.lower(), T, d, E, ct))
        if q == 'UnitSystem':
            L.append('printf(", \\"standard\\": %d", (int)PhQ::Standard<PhQ::UnitSystem>);')
        L.append('printf("}");')
    L.append('printf("\\n}\\n"); return 0; }')
    return '\n'.join(L)


def dump(work, inv):
    inc = os.path.join(H.REPO, 'include')
    src = os.path.join(work, 'tables.cpp')
    with open(src, 'w') as f:
        for h in __import__('phqv.inventory', fromlist=['x']).all_headers(inc):
            f.write('#include "%s"\n' % h)
        f.write(generate(inv))
    exe = os.path.join(work, 'tables.exe')
    rc, out, err = H.run_cmd(['g++', '-std=c++17', '-O0', '-w', '-I', inc, src, '-o', exe])
    if rc != 0:
        raise H.BuildError('table dump failed to compile:\n' + err[:3000])
    p = subprocess.run([exe], stdout=subprocess.PIPE, stderr=subprocess.PIPE, timeout=120)
    if p.returncode != 0:
        raise H.BuildError('table dump crashed (rc %d): %s' % (p.returncode, p.stderr.decode()[:500]))
    return json.loads(p.stdout.decode('utf-8'))
