"""phqv command line: check <id> [--tier quick|thorough] | replay <case.json> | selftest"""
import sys, os, json, importlib
if hasattr(sys, 'set_int_max_str_digits'):
    sys.set_int_max_str_digits(0)


def main(argv):
    if len(argv) < 2:
        print(__doc__)
        return 2
    cmd = argv[1]
    if cmd == 'check':
        pid = argv[2]
        if '--tier' in argv:
            os.environ['VERIF_TIER'] = argv[argv.index('--tier') + 1]
        os.environ.setdefault('VERIF_TIER', 'quick')
        mod = importlib.import_module('phqv.checks.' + pid)
        return mod.main()
    if cmd == 'replay':
        from . import replay
        return replay.main(argv[2])
    if cmd == 'selftest':
        from . import selftest
        return selftest.main()
    print(__doc__)
    return 2


if __name__ == '__main__':
    sys.exit(main(sys.argv))
